"""
C11 "cpp" generator profile: format-tracking generator of FPy source text for the C++ backend.

Built on the ideas of vlib.progen (Chooser-driven, type-directed, source text) with its own productions:
every numeric value carries a *kind* -- the static format it was produced in

    f32 f64                      binary32 / binary64 (any of the four hardware rounding modes)
    s8 s16 s32 s64 u8 u16 u32 u64   two's-complement / unsigned integer formats (fp.SINTn / fp.UINTn, RTZ + WRAP)

and an operation under an active context C only receives operands whose kind is *contained* in C's format;
anything else is wrapped in `fp.round(...)` (an explicit rounding, performed identically by both sides).
The C++ backend refuses every implicit lossy conversion, so without this almost nothing is accepted.

`gen_case(ch)` returns a plain-data case: source, entry name, top-level context, arg types, entry rounding
mode, inputs, feature tags.
"""

from __future__ import annotations

import math
import struct

from vlib.progen import Chooser, HypChooser, RandChooser  # noqa: F401  (re-exported)

FLOATS = ('f32', 'f64')
# 'x25': a 26-bit signed fixed-point format with one fractional bit (fp.FixedContext(True, -1, 26)); its members need up to 25
# significand bits, one more than binary32 holds, so the only machine type containing it is double.  Used for parameters only.
FLOATLIKE = ('f32', 'f64', 'x25')
INTS = ('u8', 's8', 'u16', 's16', 'u32', 's32', 'u64', 's64')          # ladder order
RANGE = {
    'u8': (0, 2**8 - 1), 's8': (-2**7, 2**7 - 1), 'u16': (0, 2**16 - 1), 's16': (-2**15, 2**15 - 1),
    'u32': (0, 2**32 - 1), 's32': (-2**31, 2**31 - 1), 'u64': (0, 2**64 - 1), 's64': (-2**63, 2**63 - 1),
}
MAGBITS = {'u8': 8, 's8': 7, 'u16': 16, 's16': 15, 'u32': 32, 's32': 31, 'u64': 64, 's64': 63}
RMS = ('RNE', 'RTZ', 'RTP', 'RTN')

# Open known findings of the backend whose triggers are excluded BY CONSTRUCTION (every suppressed production is counted
# in Gen.excluded and reported by the check as counters `excluded:<name>`):
#   float-to-int-range   known/float-to-int-out-of-range-cast: a float is rounded into a SINTn/UINTn context only when it is a
#                        variable clamped (in a binary64 block, by a conditional expression) to the target's range
#   fp32-literal         known/fp32-dyadic-literal-promotes-to-double: under a binary32 context no non-integer literal that
#                        binary32 holds exactly (also not inside fp.round: optimize=True removes an identity round); other
#                        non-integer literals only as fp.round(<literal>), folded to a float-typed constant
#   small-int-ops        known/small-int-operator-table: no arithmetic operator / abs / min / max (and no while counter,
#                        comprehension or list-literal arithmetic) under 8- and 16-bit integer contexts, no abs under
#                        UINT32/UINT64, integer min/max only over values that already have exactly the context's format,
#                        exact (REAL / INTEGER) integer arithmetic only with results wider than 16 bits and no abs/min/max
#   minmax-then-store    known/list-minmax-after-widening-store: once min(xs)/max(xs) was taken, nothing stores into xs
#                        (or a list that may share its cells) any more
#   int-format-neg-zero  (root cause = open C14 finding `neg-zero-from-exact-op`: format inference gives `-x` / `x * y` over
#                        integer formats an integer format, the backend stores it in an integer type and the IEEE `-0` the
#                        interpreter returns under a float / REAL context is lost)  -- negation only of, and multiplication only
#                        with, a value whose storage is surely floating point (see Gen.sf_of)
#   iter-elim-body-writes  (fixed in the tree; kept switchable) writes into a list a zip/enumerate loop iterates
EXCLUDE_KNOWN: set = {'float-to-int-range', 'fp32-literal', 'small-int-ops', 'minmax-then-store', 'int-format-neg-zero'}
SF_CALLS = ('sqrt', 'fma', 'floor', 'ceil', 'trunc', 'nearbyint', 'roundint', 'copysign', 'fdim')   # result has the context's format
NARROW_INTS = ('s8', 'u8', 's16', 'u16')
CTX_TEXT = {'s8': 'fp.SINT8', 's16': 'fp.SINT16', 's32': 'fp.SINT32', 's64': 'fp.SINT64',
            'u8': 'fp.UINT8', 'u16': 'fp.UINT16', 'u32': 'fp.UINT32', 'u64': 'fp.UINT64',
            'int': 'fp.INTEGER', 'real': 'fp.REAL'}


def fits(a: str, b: str) -> bool:
    """Is every value of kind `a` a value of kind `b` (the backend's ladder containment)?"""
    if a == b:
        return True
    if a == 'x25':
        return b == 'f64'
    if b == 'x25':
        return False
    if a in FLOATS:
        return a == 'f32' and b == 'f64'
    if b in FLOATS:
        return MAGBITS[a] <= (24 if b == 'f32' else 53)
    la, ha = RANGE[a]
    lb, hb = RANGE[b]
    return lb <= la and ha <= hb


def int_kind_of_range(lo, hi):
    for k in INTS:
        a, b = RANGE[k]
        if a <= lo and hi <= b:
            return k
    return None


def join(a, b):
    """Smallest kind containing both, or None."""
    if fits(a, b):
        return b
    if fits(b, a):
        return a
    if a in INTS and b in INTS:
        return int_kind_of_range(min(RANGE[a][0], RANGE[b][0]), max(RANGE[a][1], RANGE[b][1]))
    for k in FLOATS:
        if fits(a, k) and fits(b, k):
            return k
    return None


def lit_kind(text):
    """Kind of the storage the backend gives a bare literal (by value)."""
    v = float(text)
    if v == int(v) and v >= 0 and not text.startswith('-'):
        return int_kind_of_range(int(v), int(v))
    return 'f32' if struct.unpack('<f', struct.pack('<f', v))[0] == v else 'f64'


class Ctx:
    def __init__(self, kind, rm=None):
        self.kind = kind          # f32 f64 | int kinds | 'int' (INTEGER) | 'real'
        self.rm = rm

    @property
    def text(self):
        if self.kind == 'f32':
            return f'fp.IEEEContext(8, 32, fp.RM.{self.rm})'
        if self.kind == 'f64':
            return f'fp.IEEEContext(11, 64, fp.RM.{self.rm})'
        return CTX_TEXT[self.kind]

    @property
    def is_float(self):
        return self.kind in FLOATS

    @property
    def is_int(self):
        return self.kind in INTS

    def __repr__(self):
        return f'Ctx({self.kind},{self.rm})'


# value types
class Sc:
    def __init__(self, kind, rng=None, sf=False):
        self.kind = kind
        self.rng = rng              # (lo, hi): the value is known to be finite and inside this range (clamped copies)
        self.sf = sf                # the inferred format is surely an IEEE one (has -0): its storage is floating point

    def key(self):
        return ('S', self.kind)


class Bo:
    def key(self):
        return ('B',)


class Li:
    def __init__(self, elem, lb, exact=False, sf=False):
        self.elem = elem            # kind
        self.lb = lb                # known lower bound on the length
        self.exact = exact          # length known exactly (pinned / literal)
        self.sf = sf                # elements surely have floating-point storage

    def key(self):
        return ('L', self.elem)


class LL:
    def __init__(self, elem, lb, inner_lb, sf=False):
        self.elem = elem
        self.lb = lb
        self.inner_lb = inner_lb
        self.sf = sf

    def key(self):
        return ('LL', self.elem)


class Tu:
    def __init__(self, kinds, sfs=None):
        self.kinds = list(kinds)    # scalar kinds
        self.sfs = list(sfs) if sfs is not None else [False] * len(self.kinds)

    def key(self):
        return ('T', tuple(self.kinds))


DYADIC_LITS = ['0', '1', '2', '3', '5', '7', '10', '100', '0.5', '1.5', '0.25', '2.75', '0.125', '255', '3.25',
               '8388608.5', '4194304.25']
# 2**23 + 0.5 and 2**22 + 0.25 need 25 significand bits: binary64 storage, one bit more than binary32 holds
# (a decimal literal reaches the backend through its shortest repr, so only short exact decimals are usable)
INT_LITS = ['0', '1', '2', '3', '5', '7', '10', '100', '255']
NONDYADIC_LITS = ['0.1', '0.3', '1e-3', '1e10', '3.3', '0.7', '12345.678', '2.5e-7']
NONDYADIC_F32 = ['0.1', '0.3', '1e-3', '3.3', '0.7', '12345.678', '2.5e-7']
# range extremes (overflow to inf / subnormal / largest finite): rare, their one-value formats join badly with everything
EXTREME_LITS = ['1e-40', '1e39', '1e-320', '1.7976931348623157e308']
EXTREME_F32 = ['1e-40', '1e39', '1e-46', '3.4028235e38']
BIG_INT_LITS = ['65535', '65536', '16777216', '2147483647', '4294967295', '1000000']


class Helper:
    def __init__(self, name, params, ret, own_ctx, assumed, mutates, minlen, kind):
        self.name = name
        self.params = params        # [(name, VType)]
        self.ret = ret              # VType
        self.own_ctx = own_ctx      # Ctx | None
        self.assumed = assumed      # Ctx the body was generated under
        self.mutates = mutates      # set of param names whose cells the body writes
        self.minlen = minlen
        self.kind = kind
        self.ret_sf = False         # the returned scalar / the returned list's elements surely have floating-point storage


class Fn:
    def __init__(self, name, is_main):
        self.name = name
        self.is_main = is_main
        self.env = {}               # name -> VType
        self.counter = 0
        self.protected = set()
        self.must_observe = []      # names to put in the final return
        self.alias_groups = {}      # list name -> group id (names that may denote the same cells)
        self.next_group = 0
        self.ret_shape = None
        self.frozen_groups = set()  # alias groups of lists being iterated through zip/enumerate (see is_frozen)
        self.frozen_names = set()
        self.nostore_groups = set() # lists whose min/max was taken: never stored into afterwards (see no_store)
        self.nostore_names = set()

    def fresh(self, prefix):
        self.counter += 1
        return f'{prefix}{self.counter}'


class Gen:
    def __init__(self, ch: Chooser, shard=0):
        self.ch = ch
        self.features = set()
        self.excluded = {}
        self.helpers = []
        self.lines = []
        self.shard = shard
        # profile knobs (vary per program)
        self.p_int_ctx = ch.choice([0.05, 0.2, 0.4, 0.6])
        self.p_lists = ch.choice([0.0, 0.3, 0.6, 0.8])
        self.max_stmts = ch.choice([5, 8, 11])
        self.expr_depth = ch.choice([1, 2, 2, 3])

    # ------------------------------------------------------------------ contexts
    def float_ctx(self, prefer=None):
        ch = self.ch
        kind = prefer or ch.choice(['f32', 'f32', 'f64', 'f64', 'f64'])
        return Ctx(kind, ch.choice(RMS))

    def some_ctx(self, cur: Ctx):
        ch = self.ch
        if ch.bool(self.p_int_ctx):
            k = ch.weighted([(3, 's8'), (4, 's16'), (5, 's32'), (3, 's64'), (3, 'u8'), (3, 'u16'), (3, 'u32'), (2, 'u64'),
                             (3, 'int'), (5, 'real')])
            return Ctx(k)
        c = self.float_ctx()
        if ch.bool(0.35) and cur.is_float:
            # same width, different mode: the classic save/restore shape
            c = Ctx(cur.kind, ch.choice([r for r in RMS if r != cur.rm]))
        return c

    # ------------------------------------------------------------------ helpers for env
    def excl(self, name):
        self.excluded[name] = self.excluded.get(name, 0) + 1

    def narrow(self, C):
        """8/16-bit integer context under the small-int exclusion?"""
        return 'small-int-ops' in EXCLUDE_KNOWN and C.kind in NARROW_INTS

    def no_store(self, fn, name):
        """May nothing be stored into list `name` any more (its min/max was taken)?  Counts the suppression."""
        if 'minmax-then-store' not in EXCLUDE_KNOWN:
            return False
        g = fn.alias_groups.get(name)
        if name in fn.nostore_names or (g is not None and g in fn.nostore_groups):
            self.excl('minmax-then-store')
            return True
        return False

    def mark_minmax(self, fn, name):
        fn.nostore_names.add(name)
        g = fn.alias_groups.get(name)
        if g is None:
            g = fn.next_group
            fn.next_group += 1
            fn.alias_groups[name] = g
        fn.nostore_groups.add(g)

    def sf_of(self, fn, text, C):
        """Is the value of expression `text` (evaluated under C) surely held in floating-point storage?  Conservative
        (False is always safe).  Format inference keeps exact integer formats through round / cast / neg / abs / + - * /
        min / max / sum / logb, so only an IEEE-format leaf (a binary32/binary64 parameter, a non-integer constant) or an
        operation rounded to the context's own format makes a result float."""
        import ast as _ast
        if not (C.is_float or C.kind == 'real'):
            return False
        try:
            tree = _ast.parse(text.strip(), mode='eval').body
        except SyntaxError:
            return False
        hret = {h.name: h for h in self.helpers}

        def lst(n):
            if isinstance(n, _ast.Name):
                t = fn.env.get(n.id)
                return isinstance(t, (Li, LL)) and t.sf
            if isinstance(n, _ast.Subscript) and not isinstance(n.slice, _ast.Slice):
                return lst(n.value)
            return False

        def go(n):
            if isinstance(n, _ast.Name):
                t = fn.env.get(n.id)
                return isinstance(t, Sc) and t.sf
            if isinstance(n, _ast.Constant):
                return isinstance(n.value, float) and n.value != int(n.value) and 1e-30 < abs(n.value) < 1e30
            if isinstance(n, _ast.UnaryOp):
                return go(n.operand)
            if isinstance(n, _ast.BinOp):
                if isinstance(n.op, _ast.Div):
                    return C.is_float
                return go(n.left) or go(n.right)
            if isinstance(n, _ast.IfExp):
                return go(n.body) or go(n.orelse)
            if isinstance(n, _ast.Subscript):
                return lst(n.value) if not isinstance(n.slice, _ast.Slice) else False
            if isinstance(n, _ast.Call):
                f = n.func
                name = f.attr if isinstance(f, _ast.Attribute) else getattr(f, 'id', None)
                if name in SF_CALLS:
                    return C.is_float
                if name in ('round', 'cast', 'abs'):
                    return go(n.args[0])
                if name in ('min', 'max'):
                    return lst(n.args[0]) if len(n.args) == 1 else any(go(a) for a in n.args)
                if name == 'sum':
                    return lst(n.args[0])
                if name in ('fst', 'snd'):
                    t = fn.env.get(getattr(n.args[0], 'id', None))
                    return isinstance(t, Tu) and t.sfs[0 if name == 'fst' else 1]
                if name in hret:
                    return hret[name].ret_sf
                return False
            return False
        return go(tree)

    def no_negzero(self):
        return 'int-format-neg-zero' in EXCLUDE_KNOWN

    def mul_ok(self, fn, C, a, b):
        """May `a * b` be generated under C?  (0 * negative = -0 is lost when both operands have integer formats.)"""
        if not self.no_negzero() or not (C.is_float or C.kind == 'real'):
            return True
        if self.sf_of(fn, a, C) or self.sf_of(fn, b, C):
            return True
        self.excl('int-format-neg-zero')
        return False

    def pick_op(self, fn, C, a, b, ops):
        op = self.ch.choice(ops)
        if op == '*' and not self.mul_ok(fn, C, a, b):
            op = '+'
        return op

    def int_round_ok(self, fn, v, C):
        """May scalar variable v be an operand (possibly through fp.round) under integer context C?"""
        t = fn.env[v]
        if t.kind not in FLOATLIKE or 'float-to-int-range' not in EXCLUDE_KNOWN:
            return True
        if t.rng is None:
            return False
        lo, hi = RANGE[C.kind]
        return lo <= t.rng[0] and t.rng[1] <= hi

    def is_frozen(self, fn, name):
        """Known finding (optimize=True): EnumerateElim / ZipElim turn `for i, x in enumerate(xs)` into an indexed loop that
        re-reads `xs[i]` each iteration, where the interpreter (and optimize=False) iterate over the tuples built at loop
        entry -- so a body that writes the iterated list diverges.  Excluded by construction: while such a loop's body is
        generated, no write reaches a list that may share cells with the iterated one."""
        if 'iter-elim-body-writes' not in EXCLUDE_KNOWN:
            return False
        if name in fn.frozen_names:
            self.features.add('excluded:write-into-zip-enumerate-source')
            return True
        g = fn.alias_groups.get(name)
        if g is not None and g in fn.frozen_groups:
            self.features.add('excluded:write-into-zip-enumerate-source')
            return True
        return False

    def vars_of(self, fn, pred):
        return sorted(n for n, t in fn.env.items() if pred(t))

    def scalars(self, fn, okkind=None):
        return self.vars_of(fn, lambda t: isinstance(t, Sc) and (okkind is None or okkind(t.kind)))

    def lists(self, fn, pred=None):
        return self.vars_of(fn, lambda t: isinstance(t, Li) and (pred is None or pred(t)))

    # ------------------------------------------------------------------ numeric expressions
    def coerce(self, text, kind, C: Ctx):
        """`text` (of `kind`) as an operand of an operation dispatched under C."""
        if C.kind == 'real' or C.kind == 'int':
            return text, kind
        if fits(kind, C.kind):
            return text, kind
        self.features.add('explicit-round')
        if C.is_int and kind in FLOATS:
            self.features.add('float-to-int-round')
        return f'fp.round({text})', C.kind

    def literal(self, C: Ctx):
        """(text, kind) of a constant usable under C."""
        ch = self.ch
        if C.kind == 's8':
            return None
        if C.is_int or C.kind in ('int', 'real'):
            t = ch.choice(INT_LITS if C.kind != 'real' else INT_LITS + ['0.5', '2'])
            if C.kind == 'real' and t == '0.5':
                return None
            k = lit_kind(t)
            if C.is_int and not fits(k, C.kind):
                return None
            return t, k
        r = ch.int(0, 99)
        if r < 55:
            t = ch.choice(DYADIC_LITS)
            if C.kind == 'f32' and 'fp32-literal' in EXCLUDE_KNOWN and '.' in t:
                self.excl('fp32-literal')
                if lit_kind(t) == 'f32':
                    # exactly a binary32 value: fp.round(t) is the identity and optimize=True removes it again, leaving the
                    # bare double token -- an integer literal instead
                    t = ch.choice(INT_LITS)
                    return t, lit_kind(t)
                return f'fp.round({t})', 'f32'     # a genuine rounding: folded to a float-typed constant
            return t, lit_kind(t)
        if r < 62:
            if C.kind == 'f32' and 'fp32-literal' in EXCLUDE_KNOWN:
                self.excl('fp32-literal')           # (fp.round(-0.0) would be eliminated back to the bare token)
                return '0', 'u8'
            return '-0.0', 'f32'
        if r < 70:
            # an integer literal keeps the storage of its *value* even when rounded, so only those the context holds exactly
            t = ch.choice(BIG_INT_LITS)
            k = lit_kind(t)
            if fits(k, C.kind):
                return t, k
            return None
        if ch.bool(0.12):
            t = ch.choice(EXTREME_LITS if C.kind == 'f64' else EXTREME_F32)
        else:
            t = ch.choice(NONDYADIC_LITS if C.kind == 'f64' else NONDYADIC_F32)
        self.features.add('rounded-literal')
        return f'fp.round({t})', C.kind

    def atom(self, fn, C: Ctx):
        """A variable / literal / element read: (text, kind) or None."""
        ch = self.ch
        opts = []
        vs = self.scalars(fn)
        okk = lambda k: True
        if C.is_int and 'float-to-int-range' in EXCLUDE_KNOWN:
            # under an integer context every float-valued expression is built from range-clamped variables only
            n0 = len(vs)
            vs = [v for v in vs if self.int_round_ok(fn, v, C)]
            if len(vs) < n0:
                self.excl('float-to-int-range')
            okk = lambda k: k not in FLOATLIKE
        if vs:
            opts.append((10, 'var'))
        ls = self.lists(fn, lambda t: t.lb > 0 and okk(t.elem))
        if ls:
            opts.append((4, 'index'))
        lls = self.vars_of(fn, lambda t: isinstance(t, LL) and t.lb > 0 and t.inner_lb > 0 and okk(t.elem))
        if lls:
            opts.append((2, 'index2'))
        tus = self.vars_of(fn, lambda t: isinstance(t, Tu) and all(okk(k) for k in t.kinds))
        if tus:
            opts.append((2, 'fst'))
        opts.append((4, 'lit'))
        k = ch.weighted(opts)
        if k == 'var':
            # prefer variables that fit the context without rounding
            good = [v for v in vs if C.kind in ('real', 'int') or fits(fn.env[v].kind, C.kind)]
            v = ch.choice(good) if good and ch.bool(0.7) else ch.choice(vs)
            return v, fn.env[v].kind
        if k == 'index':
            l = ch.choice(ls)
            return f'{l}[{ch.int(0, fn.env[l].lb - 1)}]', fn.env[l].elem
        if k == 'index2':
            l = ch.choice(lls)
            t = fn.env[l]
            return f'{l}[{ch.int(0, t.lb - 1)}][{ch.int(0, t.inner_lb - 1)}]', t.elem
        if k == 'fst':
            t = ch.choice(tus)
            i = ch.int(0, 1)
            return f'fp.{"fst" if i == 0 else "snd"}({t})', fn.env[t].kinds[i]
        return self.literal(C)

    def usable_in(self, kind, C: Ctx):
        """May a value of `kind` be an operand under exact / unbounded contexts?"""
        if C.kind == 'int':
            return kind in INTS and MAGBITS[kind] <= 31 or kind in ('u8', 's8', 'u16', 's16', 'u32', 's32')
        if C.kind == 'real':
            return kind in INTS and MAGBITS[kind] <= 32
        return True

    def num(self, fn, C: Ctx, d: int):
        """A numeric expression evaluated under C: (text, kind).  Always succeeds."""
        for _ in range(6):
            r = self._num(fn, C, d)
            if r is not None and r[1] is not None:
                return r
        # fallback: something always valid
        if C.kind == 's8':
            vs = self.scalars(fn, lambda k: k == 's8')
            if vs:
                v = self.ch.choice(vs)
                return v, 's8'
            vs = self.scalars(fn)
            if vs:
                v = self.ch.choice(vs)
                return f'fp.round({v})', 's8'
        if C.kind in ('int', 'real'):
            return '1', 'u8'
        return ('1', 'u8') if C.kind != 's8' else ('fp.round(1)', 'u8')

    def operand(self, fn, C, d):
        t, k = self.num(fn, C, d)
        return self.coerce(t, k, C)

    def _num(self, fn, C: Ctx, d: int):
        ch = self.ch
        if C.kind in ('int', 'real'):
            return self._num_exact(fn, C, d)
        if d <= 0:
            return self.atom(fn, C)
        if self.narrow(C):
            # known/small-int-operator-table: nothing that dispatches on an 8/16-bit operator signature
            self.excl('small-int-ops')
            opts = [(12, 'atom'), (12, 'round'), (5, 'ifexp'), (2, 'len'), (2, 'call'), (2, 'cast')]
        elif C.is_int:
            opts = [(30, 'bin'), (10, 'atom'), (4, 'neg'), (3, 'abs'), (5, 'round'), (4, 'minmax'), (3, 'ifexp'), (3, 'div'), (2, 'len'),
                    (2, 'call')]
        else:
            opts = [(30, 'bin'), (8, 'atom'), (4, 'neg'), (3, 'abs'), (5, 'round'), (4, 'minmax'), (3, 'ifexp'), (4, 'sqrt'), (4, 'fma'),
                    (5, 'rint'), (3, 'copysign'), (2, 'fdim'), (2, 'logb'), (3, 'sum'), (2, 'lminmax'), (1, 'len'), (1, 'cast'), (4, 'call')]
        k = ch.weighted(opts)
        kc = C.kind
        if k == 'atom':
            return self.atom(fn, C)
        if k == 'bin':
            a, _ = self.operand(fn, C, d - 1)
            b, _ = self.operand(fn, C, d - 1)
            op = self.pick_op(fn, C, a, b, ['+', '-', '*'] if C.is_int else ['+', '-', '*', '/', '+', '*'])
            return f'({a} {op} {b})', kc
        if k == 'div':
            # integer division: positive literal divisor only (no trap, no division by zero)
            if kc == 's8':
                return None
            a, _ = self.operand(fn, C, d - 1)
            return f'({a} / {ch.choice(["1", "2", "3", "7", "10"])})', kc
        if k == 'neg':
            a, _ = self.operand(fn, C, d - 1)
            if C.is_float and self.no_negzero() and not self.sf_of(fn, a, C):
                self.excl('int-format-neg-zero')       # -(0) = -0 would be lost in integer storage
                return None
            return f'(-{a})', kc
        if k == 'abs':
            if kc in ('u32', 'u64'):
                self.excl('small-int-ops')
                return None          # std::abs has no unsigned overload (part of known/small-int-operator-table)
            a, ka = self.operand(fn, C, d - 1)
            if C.is_float and 'small-int-ops' in EXCLUDE_KNOWN and not self.sf_of(fn, a, C):
                # an exact integer-format operand: optimize=True hoists abs(...) into an exact (REAL) temporary dispatched on the
                # operand's integer type -- std::abs(uint32_t / uint64_t) again.  Only a signed integer variable is safe.
                if not (a in fn.env and ka in ('s8', 's16', 's32', 's64')):
                    self.excl('small-int-ops')
                    return None
            return f'abs({a})', kc
        if k == 'round':
            t, kk = self.num(fn, C, d - 1)
            if C.is_int and kk in FLOATLIKE:
                self.features.add('float-to-int-round')
            return f'fp.round({t})', kc
        if k == 'cast':
            # exact by construction: a narrower kind under a wider context
            vs = self.scalars(fn, lambda kk: kk != kc and fits(kk, kc))
            if not vs:
                return None
            return f'fp.cast({ch.choice(vs)})', kc
        if k == 'minmax':
            f = ch.choice(['min', 'max'])
            n = ch.int(2, 3)
            if C.is_int and 'small-int-ops' in EXCLUDE_KNOWN:
                # integer min/max: every operand already has exactly the context's format (a variable of that kind or an
                # operation result), never a literal or a narrower variable
                args = []
                same = self.scalars(fn, lambda kk: kk == kc)
                for _ in range(n):
                    if same and ch.bool(0.5):
                        args.append(ch.choice(same))
                    else:
                        a, _ = self.operand(fn, C, max(0, d - 2))
                        b, _ = self.operand(fn, C, 0)
                        args.append(f'({a} {ch.choice(["+", "-", "*"])} {b})')
                self.excl('small-int-ops')
            else:
                args = [self.operand(fn, C, d - 1)[0] for _ in range(n)]
            self.features.add('minmax')
            return f'{f}({", ".join(args)})', kc
        if k == 'ifexp':
            a, ka = self.operand(fn, C, d - 1)
            b, kb = self.operand(fn, C, d - 1)
            c = self.boolean(fn, C, d - 1)
            return f'({a} if {c} else {b})', join(ka, kb)
        if k == 'sqrt':
            a, _ = self.operand(fn, C, d - 1)
            return f'fp.sqrt({a})', kc
        if k == 'fma':
            a, _ = self.operand(fn, C, d - 1)
            b, _ = self.operand(fn, C, d - 1)
            c, _ = self.operand(fn, C, d - 1)
            self.features.add('fma')
            return f'fp.fma({a}, {b}, {c})', kc
        if k == 'rint':
            a, _ = self.operand(fn, C, d - 1)
            return f'fp.{ch.choice(["floor", "ceil", "trunc", "nearbyint", "roundint"])}({a})', kc
        if k == 'copysign':
            # the sign of a NaN is not part of the property (NaN for NaN) and differs between the interpreter and the
            # hardware (x86 invalid operations produce a negative NaN): the sign source is never a NaN by construction
            a, _ = self.operand(fn, C, d - 1)
            vs = self.scalars(fn)
            if not vs:
                return None
            v = ch.choice(vs)
            b, _ = self.coerce(v, fn.env[v].kind, C)
            if fn.env[v].kind in FLOATS:
                one, _ = self.coerce('1', 'u8', C)
                b = f'({b} if ({v} == {v}) else {one})'
            return f'fp.copysign({a}, {b})', kc
        if k == 'fdim':
            a, _ = self.operand(fn, C, d - 1)
            b, _ = self.operand(fn, C, d - 1)
            return f'fp.fdim({a}, {b})', kc
        if k == 'logb':
            a, _ = self.operand(fn, C, d - 1)
            return f'fp.logb({a})', kc
        if k == 'sum':
            ls = self.lists(fn, lambda t: fits(t.elem, kc))
            if not ls:
                return None
            self.features.add('sum')
            return f'sum({ch.choice(ls)})', kc
        if k == 'lminmax':
            ls = self.lists(fn, lambda t: t.lb >= 1 and fits(t.elem, kc))
            if not ls:
                return None
            l = ch.choice(ls)
            self.features.add('list-minmax')
            self.mark_minmax(fn, l)
            return f'{ch.choice(["min", "max"])}({l})', fn.env[l].elem
        if k == 'len':
            ls = self.lists(fn)
            if not ls:
                return None
            l = ch.choice(ls)
            self.features.add('len')
            # a pinned length is a known small constant; a free one is an int64
            kk = 'u8' if fn.env[l].exact else 's64'
            return f'len({l})', kk
        if k == 'call':
            return self.call_scalar(fn, C, d)
        raise ValueError(k)

    def _num_exact(self, fn, C: Ctx, d: int):
        """Expressions under REAL / INTEGER: integer kinds with range tracking; every exact result must
        fit a machine integer (REAL) / stay far inside int64 (INTEGER)."""
        ch = self.ch
        vs = self.scalars(fn, lambda k: self.usable_in(k, C))
        fl = self.scalars(fn, lambda k: k in FLOATLIKE) if C.kind == 'real' else []

        def leaf():
            if vs and ch.bool(0.8):
                v = ch.choice(vs)
                return v, fn.env[v].kind
            t = ch.choice(INT_LITS)
            return t, lit_kind(t)
        if d <= 0:
            return leaf()
        opts = [(10, 'bin'), (3, 'leaf'), (2, 'neg'), (2, 'abs'), (2, 'minmax')]
        if 'small-int-ops' in EXCLUDE_KNOWN:
            opts = [(10, 'bin'), (3, 'leaf'), (2, 'neg')]
        if fl:
            opts += [(3, 'fneg'), (2, 'fminmax')]
        k = ch.weighted(opts)
        if k == 'leaf':
            return leaf()
        if k == 'fneg':
            v = ch.choice(fl)
            if self.no_negzero() and not fn.env[v].sf:
                self.excl('int-format-neg-zero')
                return None
            self.features.add('real-float-op')
            return f'{ch.choice(["(-", "abs("])}{v})', fn.env[v].kind
        if k == 'fminmax':
            a, b = ch.choice(fl), ch.choice(fl)
            self.features.add('real-float-op')
            return f'{ch.choice(["min", "max"])}({a}, {b})', join(fn.env[a].kind, fn.env[b].kind)
        ra = self._num_exact(fn, C, d - 1) if ch.bool(0.4) else leaf()
        if ra is None or ra[1] in FLOATLIKE:
            return None
        a, ka = ra
        la, ha = RANGE[ka]
        if k == 'neg':
            if C.kind == 'real' and self.no_negzero():
                self.excl('int-format-neg-zero')
                return None
            r = int_kind_of_range(-ha, -la)
            return (f'(-{a})', r) if self._exact_ok(r, C) else None
        if k == 'abs':
            r = int_kind_of_range(0, max(abs(la), abs(ha)))
            return (f'abs({a})', r) if self._exact_ok(r, C) else None
        rb = self._num_exact(fn, C, d - 1) if ch.bool(0.3) else leaf()
        if rb is None or rb[1] in FLOATLIKE:
            return None
        b, kb = rb
        lb, hb = RANGE[kb]
        if k == 'minmax':
            f = ch.choice(['min', 'max'])
            r = int_kind_of_range(min(la, lb), max(ha, hb))
            self.features.add('minmax')
            return (f'{f}({a}, {b})', r) if self._exact_ok(r, C) else None
        op = ch.choice(['+', '-', '*'])
        if op == '*' and C.kind == 'real' and self.no_negzero() and (la < 0 or lb < 0):
            self.excl('int-format-neg-zero')           # 0 * negative = -0 under REAL, integer storage drops it
            op = '+'
        if op == '+':
            lo, hi = la + lb, ha + hb
        elif op == '-':
            lo, hi = la - hb, ha - lb
        else:
            c = [la * lb, la * hb, ha * lb, ha * hb]
            lo, hi = min(c), max(c)
        r = int_kind_of_range(lo, hi)
        if not self._exact_ok(r, C):
            return None
        self.features.add('exact-int-arith' if C.kind == 'real' else 'integer-ctx-arith')
        # under INTEGER the result is an unbounded-integer value held in int64
        return f'({a} {op} {b})', (r if C.kind == 'real' else 's64' if MAGBITS[r] > 31 else r)

    def _exact_ok(self, r, C):
        if r is None:
            return False
        if 'small-int-ops' in EXCLUDE_KNOWN and MAGBITS[r] <= 16:
            self.excl('small-int-ops')
            return False
        return True

    # ------------------------------------------------------------------ calls
    def callable_helpers(self, fn, C, pred):
        if not fn.is_main:
            return []
        out = []
        for h in self.helpers:
            if not pred(h):
                continue
            if h.own_ctx is None and h.assumed.kind != C.kind:
                continue
            out.append(h)
        return out

    def call_text(self, fn, C, h: Helper, d):
        """Text of a call to h under C, or None if no suitable arguments exist."""
        ch = self.ch
        args = []
        passed_lists = []
        for pn, pt in h.params:
            if isinstance(pt, Sc):
                # argument kind must be contained in the parameter kind the body was generated for
                cands = self.scalars(fn, lambda k: fits(k, pt.kind))
                need_sf = pt.sf and self.no_negzero()
                if need_sf:
                    cands = [v for v in cands if fn.env[v].sf]
                if cands and ch.bool(0.7):
                    args.append(ch.choice(cands))
                else:
                    t, k = self.num(fn, C, max(0, d - 1))
                    if not fits(k, pt.kind):
                        if C.kind == pt.kind:
                            t = f'fp.round({t})'
                        else:
                            return None
                    if need_sf and not self.sf_of(fn, t, C):
                        if not cands:
                            self.excl('int-format-neg-zero')
                            return None
                        t = ch.choice(cands)
                    args.append(t)
            elif isinstance(pt, Li):
                need = h.minlen.get(pn, 0)
                cands = self.lists(fn, lambda t: t.elem == pt.elem and t.lb >= need and (t.sf or not pt.sf or not self.no_negzero()))
                if not cands:
                    return None
                l = ch.choice(cands)
                args.append(l)
                passed_lists.append((pn, l))
            elif isinstance(pt, LL):
                cands = self.vars_of(fn, lambda t: isinstance(t, LL) and t.elem == pt.elem and t.lb >= pt.lb and t.inner_lb >= pt.inner_lb
                                     and (t.sf or not pt.sf or not self.no_negzero()))
                if not cands:
                    return None
                l = ch.choice(cands)
                args.append(l)
                passed_lists.append((pn, l))
            elif isinstance(pt, Bo):
                args.append(self.bool_arg(fn, C))
            else:
                return None
        self.features.add('helper-call')
        self.features.add('helper-with-own-ctx' if h.own_ctx is not None else 'helper-inherits-ctx')
        for pn, l in passed_lists:
            if (pn in h.mutates or h.kind == 'returns-arg') and (self.is_frozen(fn, l) or self.no_store(fn, l)):
                return None
        for pn, l in passed_lists:
            if pn in h.mutates:
                self.features.add('callee-writes-list')
                g = fn.alias_groups.get(l)
                if g is not None:
                    others = [n for n, gg in fn.alias_groups.items() if gg == g and n != l and n in fn.env]
                    if others:
                        self.features.add('callee-writes-aliased-list')
                        for o in others[:2]:
                            if o not in fn.must_observe:
                                fn.must_observe.append(o)
                if l not in fn.must_observe:
                    fn.must_observe.append(l)
        return f'{h.name}({", ".join(args)})'

    def bool_arg(self, fn, C):
        ch = self.ch
        bs = self.vars_of(fn, lambda t: isinstance(t, Bo))
        if bs and ch.bool(0.5):
            return ch.choice(bs)
        return ch.choice(['True', 'False']) if ch.bool(0.6) else self.boolean(fn, C, 0)

    def two_site_scenario(self, fn, C, ind, out):
        """One helper called from two sites of the same context with arguments of DIFFERENT formats (a binary32 value at
        one site, a binary64 value at the other): each site needs its own specialisation."""
        ch = self.ch
        hs = [h for h in self.helpers if isinstance(h.ret, Sc) and all(isinstance(t, (Sc, Bo)) for _, t in h.params)
              and any(isinstance(t, Sc) and t.kind == 'f64' for _, t in h.params)
              and (h.own_ctx is not None or h.assumed.is_float)]
        if not hs:
            return False
        h = ch.choice(hs)
        H = h.own_ctx or h.assumed
        lines = []
        inner = ind
        K = C
        if h.own_ctx is None and C.kind != H.kind:
            K = Ctx(H.kind, ch.choice(RMS))
            lines.append(f'{ind}with {K.text}:')
            inner = ind + '    '
        elif not C.is_float:
            return False
        # a binary32 and a binary64 value, both surely float-stored
        vals = {}
        pre = []
        for kind in ('f32', 'f64'):
            cands = self.scalars(fn, lambda k: k == kind)
            cands = [v for v in cands if fn.env[v].sf]
            if cands and ch.bool(0.7):
                vals[kind] = ch.choice(cands)
            else:
                Kk = Ctx(kind, ch.choice(RMS))
                w = fn.fresh('v')
                pre.append(f'{ind}with {Kk.text}:')
                pre.append(f'{ind}    {w} = {self.inexact(fn, Kk)}')
                fn.env[w] = Sc(kind, sf=True)
                vals[kind] = w
        calls = []
        for kind in (('f32', 'f64') if ch.bool(0.5) else ('f64', 'f32')):
            args = []
            used = False
            for pn, pt in h.params:
                if isinstance(pt, Bo):
                    args.append(self.bool_arg(fn, K))
                elif pt.kind == 'f64' and not used:
                    args.append(vals[kind])
                    used = True
                else:
                    cands = [v for v in self.scalars(fn, lambda k: fits(k, pt.kind)) if fn.env[v].sf or not pt.sf]
                    if not cands:
                        return False
                    args.append(ch.choice(cands))
            calls.append(f'{h.name}({", ".join(args)})')
        out += pre + lines
        names = []
        for c in calls:
            v = fn.fresh('v')
            out.append(f'{inner}{v} = {c}')
            fn.env[v] = Sc(h.ret.kind, sf=h.ret_sf)
            names.append(v)
        w = fn.fresh('v')
        out.append(f'{inner}{w} = ({names[0]} + {names[1]})')
        fn.env[w] = Sc(K.kind if K.is_float else h.ret.kind, sf=h.ret_sf)
        for n in names + [w]:
            if n not in fn.must_observe:
                fn.must_observe.append(n)
        self.features.add('helper-call')
        self.features.add('helper-two-sites-different-arg-formats')
        self.features.add('helper-with-own-ctx' if h.own_ctx is not None else 'helper-inherits-ctx')
        return False

    def call_scalar(self, fn, C, d):
        hs = self.callable_helpers(fn, C, lambda h: isinstance(h.ret, Sc) and not (
            C.is_int and 'float-to-int-range' in EXCLUDE_KNOWN and h.ret.kind in FLOATLIKE))
        if not hs:
            return None
        h = self.ch.choice(hs)
        t = self.call_text(fn, C, h, d)
        if t is None:
            return None
        return t, h.ret.kind

    # ------------------------------------------------------------------ booleans
    def boolean(self, fn, C: Ctx, d: int):
        ch = self.ch
        vs = self.vars_of(fn, lambda t: isinstance(t, Bo))
        if d <= 0 and vs and ch.bool(0.4):
            return ch.choice(vs)
        k = ch.weighted([(12, 'cmp'), (2, 'chain'), (3, 'and'), (3, 'or'), (2, 'not'), (2, 'var'), (4, 'pred'), (4, 'anyall')]) if d > 0 else 'cmp'
        if k == 'cmp' or k == 'chain':
            n = 3 if k == 'chain' else 2
            parts = []
            kinds = []
            for _ in range(n):
                t, kk = self.num(fn, C, max(0, d - 1))
                # comparisons need a common storage: avoid 64-bit integers against floats / mixed signedness at 64 bits
                for prev in kinds:
                    if join(prev, kk) is None:
                        t, kk = self.coerce_for_compare(t, kk, C)
                        break
                parts.append(t)
                kinds.append(kk)
            for i in range(len(kinds)):
                for j in range(i):
                    if join(kinds[i], kinds[j]) is None:
                        return 'True'
            ops = [ch.choice(['<', '<=', '>', '>=', '==', '!=']) for _ in range(n - 1)]
            if n == 3:
                self.features.add('chained-compare')
            s = parts[0]
            for o, p in zip(ops, parts[1:]):
                s += f' {o} {p}'
            return f'({s})'
        if k == 'and':
            return f'({self.boolean(fn, C, d - 1)} and {self.boolean(fn, C, d - 1)})'
        if k == 'or':
            return f'({self.boolean(fn, C, d - 1)} or {self.boolean(fn, C, d - 1)})'
        if k == 'not':
            return f'(not {self.boolean(fn, C, d - 1)})'
        if k == 'var':
            return ch.choice(vs) if vs else 'True'
        if k == 'pred':
            fl = self.scalars(fn, lambda kk: kk in FLOATS)
            if not fl:
                return 'False'
            self.features.add('fp-predicate')
            p = ch.choice(["isnan", "isinf", "isfinite", "signbit", "signbit"])
            v = ch.choice(fl)
            if p == 'signbit':
                return f'(({v} == {v}) and fp.signbit({v}))'      # signbit(NaN) is left open
            return f'fp.{p}({v})'
        if k == 'anyall':
            ls = self.lists(fn)
            if not ls:
                return 'True'
            l = ch.choice(ls)
            v = fn.fresh('q')
            fn.env[v] = Sc(fn.env[l].elem, sf=fn.env[l].sf)
            t, kk = self.num(fn, C, 0)
            if join(kk, fn.env[l].elem) is None:
                t = '0' if C.kind != 's8' else v
            del fn.env[v]
            self.features.add('any-all')
            return f'{ch.choice(["any", "all"])}([{v} {ch.choice(["<", ">=", "=="])} {t} for {v} in {l}])'
        raise ValueError(k)

    def coerce_for_compare(self, t, k, C):
        if C.kind in ('real', 'int'):
            return t, k
        return f'fp.round({t})', C.kind

    # ------------------------------------------------------------------ list expressions
    def list_expr(self, fn, C: Ctx, d: int):
        self._body_sf = False
        r = self._list_expr(fn, C, d)
        if r is not None:
            r[1].sf = self.sf_list_of(fn, r[0], C)
        return r

    def sf_list_of(self, fn, text, C):
        """Do the elements of list expression `text` surely have floating-point storage?"""
        import ast as _ast
        try:
            n = _ast.parse(text.strip(), mode='eval').body
        except SyntaxError:
            return False
        if isinstance(n, _ast.List):
            return any(self.sf_of(fn, _ast.unparse(e), C) for e in n.elts)
        if isinstance(n, _ast.Name):
            t = fn.env.get(n.id)
            return isinstance(t, Li) and t.sf
        if isinstance(n, _ast.Subscript) and isinstance(n.value, _ast.Name):
            t = fn.env.get(n.value.id)
            return isinstance(t, (Li, LL)) and t.sf
        if isinstance(n, _ast.ListComp):
            return self._body_sf
        if isinstance(n, _ast.Call) and isinstance(n.func, _ast.Name):
            for h in self.helpers:
                if h.name == n.func.id:
                    return h.ret_sf
        return False

    def _list_expr(self, fn, C: Ctx, d: int):
        """(text, Li) of a fresh or aliased flat list, evaluated under C; or None."""
        ch = self.ch
        ls = self.lists(fn)
        opts = [(6, 'literal')]
        if C.kind not in ('int',):
            opts.append((3, 'comp-range'))
        if ls:
            opts += [(4, 'alias'), (5, 'comp'), (2, 'comp-zip'), (2, 'comp-enum'), (3, 'slice')]
        hs = self.callable_helpers(fn, C, lambda h: isinstance(h.ret, Li))
        if hs:
            opts.append((4, 'call'))
        k = ch.weighted(opts)
        if C.kind in ('real', 'int') and k in ('comp', 'comp-zip', 'comp-enum', 'comp-range', 'literal'):
            k = 'alias' if ls else None
            if k is None:
                return None
        if self.narrow(C) and k in ('comp', 'comp-zip', 'comp-enum', 'comp-range', 'literal'):
            # element expressions are arithmetic: none under 8/16-bit integer contexts
            self.excl('small-int-ops')
            k = 'alias' if ls else None
            if k is None:
                return None
        cl = ls
        if C.is_int and 'float-to-int-range' in EXCLUDE_KNOWN:
            # a comprehension variable over a float list is an unbounded float
            cl = [l for l in ls if fn.env[l].elem not in FLOATLIKE]
            if k in ('comp', 'comp-zip', 'comp-enum') and not cl:
                self.excl('float-to-int-range')
                k = 'alias'
        if k == 'literal':
            n = ch.int(1, 4)
            elems = [self.operand(fn, C, max(0, d - 1)) for _ in range(n)]
            kind = elems[0][1]
            for _, kk in elems[1:]:
                kind = join(kind, kk)
                if kind is None:
                    return None
            # make the element format exactly the context's format: at least one element is an operation result
            if kind != C.kind:
                t, _ = self.operand(fn, C, 0)
                elems[0] = (f'({t} + {self.operand(fn, C, 0)[0]})' if C.kind not in NARROW_INTS else f'fp.round({t})', C.kind)
                kind = C.kind
            return '[' + ', '.join(t for t, _ in elems) + ']', Li(kind, n, True)
        if k == 'alias':
            l = ch.choice(ls)
            self.features.add('list-alias')
            return l, Li(fn.env[l].elem, fn.env[l].lb, fn.env[l].exact), l
        if k == 'slice':
            l = ch.choice(ls)
            lb = fn.env[l].lb
            lo = ch.int(0, lb)
            hi = ch.int(lo, lb)
            form = ch.int(0, 3)
            self.features.add('slice')
            if form == 0:
                return f'{l}[{lo}:{hi}]', Li(fn.env[l].elem, hi - lo, True)
            if form == 1:
                return f'{l}[{lo}:]', Li(fn.env[l].elem, lb - lo, fn.env[l].exact)
            if form == 2:
                return f'{l}[:{hi}]', Li(fn.env[l].elem, hi, True)
            return f'{l}[:]', Li(fn.env[l].elem, lb, fn.env[l].exact)
        if k == 'call':
            h = ch.choice(hs)
            t = self.call_text(fn, C, h, d)
            if t is None:
                return None
            return t, Li(h.ret.elem, h.ret.lb, False)
        v = fn.fresh('e')
        self.features.add('comprehension')
        if k == 'comp':
            l = ch.choice(cl)
            fn.env[v] = Sc(fn.env[l].elem, sf=fn.env[l].sf)
            body, kk = self.elem_body(fn, C, d, v)
            del fn.env[v]
            return f'[{body} for {v} in {l}]', Li(kk, fn.env[l].lb, fn.env[l].exact)
        if k == 'comp-range':
            n = ch.int(0, 4)
            fn.env[v] = Sc('u8' if n > 0 else 's64')       # an empty range gets the unconstrained integer format
            body, kk = self.elem_body(fn, C, d, v)
            del fn.env[v]
            self.features.add('range')
            form = ch.int(0, 2) if n > 0 else 0
            if form == 0:
                return f'[{body} for {v} in range({n})]', Li(kk, n, True)
            if form == 1:
                return f'[{body} for {v} in range(1, {n + 1})]', Li(kk, n, True)
            return f'[{body} for {v} in range(0, {2 * n}, 2)]', Li(kk, n, True)
        if k == 'comp-zip':
            l1 = ch.choice(cl)
            same = [l for l in cl if fn.env[l].exact and fn.env[l1].exact and fn.env[l].lb == fn.env[l1].lb]
            l2 = ch.choice(same) if same else l1
            w = fn.fresh('e')
            fn.env[v] = Sc(fn.env[l1].elem, sf=fn.env[l1].sf)
            fn.env[w] = Sc(fn.env[l2].elem, sf=fn.env[l2].sf)
            body, kk = self.elem_body(fn, C, d, v, w)
            del fn.env[v]
            del fn.env[w]
            self.features.add('zip')
            return f'[{body} for {v}, {w} in zip({l1}, {l2})]', Li(kk, fn.env[l1].lb, fn.env[l1].exact)
        if k == 'comp-enum':
            l = ch.choice(cl)
            w = fn.fresh('e')
            fn.env[v] = Sc('u8' if fn.env[l].exact else 's64')
            fn.env[w] = Sc(fn.env[l].elem, sf=fn.env[l].sf)
            body, kk = self.elem_body(fn, C, d, w, v if fn.env[l].exact else None)
            del fn.env[v]
            del fn.env[w]
            self.features.add('enumerate')
            return f'[{body} for {v}, {w} in enumerate({l})]', Li(kk, fn.env[l].lb, fn.env[l].exact)
        raise ValueError(k)

    def elem_body(self, fn, C, d, *names):
        """An element expression mentioning the comprehension variables, of kind exactly C.kind."""
        ch = self.ch
        names = [n for n in names if n is not None]
        a, _ = self.coerce(names[0], fn.env[names[0]].kind, C)
        if len(names) > 1 and ch.bool(0.7):
            b, _ = self.coerce(names[1], fn.env[names[1]].kind, C)
        else:
            b, _ = self.operand(fn, C, max(0, d - 1))
        op = self.pick_op(fn, C, a, b, ['+', '*', '-'])
        if ch.bool(0.5):
            a, b = b, a
        self._body_sf = self.sf_of(fn, f'({a} {op} {b})', C)       # while the comprehension variables are in scope
        return f'({a} {op} {b})', C.kind

    # ------------------------------------------------------------------ statements
    def block(self, fn, C, ind, n, depth, out, in_loop=False, in_with=0):
        n0 = len(out)
        for _ in range(n):
            if self.stmt(fn, C, ind, depth, out, in_loop, in_with):
                return True
        if len(out) == n0:
            out.append(f'{ind}pass')
        return False

    def snapshot(self, fn):
        return (dict(fn.env), set(fn.protected), dict(fn.alias_groups))

    def restore(self, fn, snap):
        fn.env = dict(snap[0])
        fn.protected = set(snap[1])
        # alias groups only grow (conservative)

    def bind(self, fn, name, vt, alias_of=None):
        fn.env[name] = vt
        if isinstance(vt, (Li, LL)):
            if alias_of is not None:
                g = fn.alias_groups.get(alias_of)
                if g is None:
                    g = fn.next_group
                    fn.next_group += 1
                    fn.alias_groups[alias_of] = g
                fn.alias_groups[name] = g
            else:
                fn.alias_groups.pop(name, None)

    def stmt(self, fn, C: Ctx, ind, depth, out, in_loop, in_with):
        ch = self.ch
        ed = self.expr_depth
        lists_on = ch.bool(self.p_lists) or bool(self.lists(fn))
        opts = [(26, 'assign'), (7, 'reassign'), (5, 'aug'), (5, 'assignB')]
        if lists_on and C.kind != 'int':
            opts += [(9, 'assignL'), (8, 'store'), (3, 'nested'), (3, 'store2')]
        opts += [(3, 'tuple'), (2, 'untuple')]
        if C.is_float and (lists_on or ch.bool(0.3)):
            opts.append((5, 'grid3'))
        if fn.is_main and depth > 0 and fn.ret_shape in ('pair', 'big') and not in_loop:
            opts.append((6, 'mode-return'))
        if depth > 0 and (C.is_float or C.kind in ('s32', 'u32', 's64', 'u64')):
            opts += [(4, 'loop-bound'), (5, 'agg-swap')]
        if C.is_float:
            opts.append((4, 'sum-narrow'))
        if depth > 0:
            opts += [(8, 'if'), (4, 'if1'), (8, 'for'), (14, 'with'), (3, 'while')]
        if fn.is_main and self.helpers:
            opts.append((8, 'callstmt'))
            if depth > 0:
                opts.append((7, 'two-site'))
            if depth > 0 and any(h.params and isinstance(h.params[0][1], (Li, LL)) for h in self.helpers):
                opts.append((14, 'alias-call'))
        opts.append((1, 'assert'))
        if (in_loop or in_with or depth < 2) and depth < 3:
            opts.append((9 if in_with else 3, 'return'))
        k = ch.weighted(opts)
        if k == 'assign':
            v = fn.fresh('v')
            t, kk = self.num(fn, C, ed)
            if kk is None:
                return False
            out.append(f'{ind}{v} = {t}')
            fn.env[v] = Sc(kk, sf=self.sf_of(fn, t, C))
        elif k == 'reassign' or k == 'aug':
            if C.kind in ('real', 'int'):
                return False
            if self.narrow(C):
                self.excl('small-int-ops')
                return False
            vs = [v for v in self.scalars(fn, lambda kk: kk == C.kind) if v not in fn.protected and not v.startswith(('a', 'p'))]
            if not vs:
                return False
            v = ch.choice(vs)
            t, _ = self.operand(fn, C, ed - 1)
            if k == 'aug':
                op = self.pick_op(fn, C, v, t, ['+', '-', '*'])
                out.append(f'{ind}{v} {op}= {t}')
                self.features.add('augassign')
                fn.env[v].sf = fn.env[v].sf and self.sf_of(fn, f'({v} {op} {t})', C)
            else:
                # an operation result: its kind is exactly the context's
                u, _ = self.operand(fn, C, 0)
                op = self.pick_op(fn, C, t, u, ['+', '*', '-'])
                out.append(f'{ind}{v} = ({t} {op} {u})')
                self.features.add('reassign')
                fn.env[v].sf = fn.env[v].sf and self.sf_of(fn, f'({t} {op} {u})', C)
        elif k == 'assignB':
            v = fn.fresh('b')
            out.append(f'{ind}{v} = {self.boolean(fn, C, ed - 1)}')
            fn.env[v] = Bo()
        elif k == 'assignL':
            r = self.list_expr(fn, C, ed - 1)
            if r is None:
                return False
            v = fn.fresh('xs')
            out.append(f'{ind}{v} = {r[0]}')
            self.bind(fn, v, r[1], alias_of=r[2] if len(r) > 2 else None)
        elif k == 'store':
            ls = self.lists(fn, lambda t: t.lb > 0)
            if not ls:
                return False
            l = ch.choice(ls)
            if self.is_frozen(fn, l) or self.no_store(fn, l):
                return False
            ek = fn.env[l].elem
            if C.kind == ek:
                t, _ = self.operand(fn, C, ed - 1)
            else:
                cands = self.scalars(fn, lambda kk: fits(kk, ek))
                if not cands:
                    return False
                t = ch.choice(cands)
            out.append(f'{ind}{l}[{ch.int(0, fn.env[l].lb - 1)}] = {t}')
            self.features.add('list-store')
            if fn.alias_groups.get(l) is not None:
                self.features.add('store-through-alias')
                for o in [n for n, g in fn.alias_groups.items() if g == fn.alias_groups[l] and n in fn.env][:3]:
                    if o not in fn.must_observe:
                        fn.must_observe.append(o)
        elif k == 'nested':
            ls = self.lists(fn)
            if not ls:
                return False
            a = ch.choice(ls)
            same = [l for l in ls if fn.env[l].elem == fn.env[a].elem]
            n = ch.int(1, 3)
            rows = [ch.choice(same) if ch.bool(0.7) else a for _ in range(n)]
            if ch.bool(0.3):
                rows[ch.int(0, n - 1)] = f'{a}[:]'
            v = fn.fresh('xss')
            out.append(f'{ind}{v} = [{", ".join(rows)}]')
            inner = min(fn.env[r.split('[')[0]].lb for r in rows)
            fn.env[v] = LL(fn.env[a].elem, n, inner, sf=all(fn.env[r.split('[')[0]].sf for r in rows))
            # every named row now has a second referrer
            g = fn.next_group
            fn.next_group += 1
            for r in rows:
                if '[' not in r:
                    gg = fn.alias_groups.get(r)
                    if gg is None:
                        fn.alias_groups[r] = g
                    else:
                        g = gg
            fn.alias_groups[v] = g
            self.features.add('nested-list')
            if len(set(rows)) < len(rows):
                self.features.add('nested-list-shared-rows')
        elif k == 'store2':
            lls = self.vars_of(fn, lambda t: isinstance(t, LL) and t.lb > 0 and t.inner_lb > 0)
            if not lls:
                return False
            l = ch.choice(lls)
            if self.is_frozen(fn, l) or self.no_store(fn, l):
                return False
            t0 = fn.env[l]
            ek = t0.elem
            if C.kind == ek:
                t, _ = self.operand(fn, C, ed - 1)
            else:
                cands = self.scalars(fn, lambda kk: fits(kk, ek))
                if not cands:
                    return False
                t = ch.choice(cands)
            if ch.bool(0.25):
                # replace a whole row
                rows = self.lists(fn, lambda tt: tt.elem == ek and tt.lb >= t0.inner_lb)
                if rows:
                    out.append(f'{ind}{l}[{ch.int(0, t0.lb - 1)}] = {ch.choice(rows)}')
                    self.features.add('row-replaced')
                    return False
            out.append(f'{ind}{l}[{ch.int(0, t0.lb - 1)}][{ch.int(0, t0.inner_lb - 1)}] = {t}')
            self.features.add('nested-store')
            g = fn.alias_groups.get(l)
            for o in [n for n, gg in fn.alias_groups.items() if gg == g and n in fn.env][:3]:
                if o not in fn.must_observe:
                    fn.must_observe.append(o)
        elif k == 'tuple':
            v = fn.fresh('t')
            a, ka = self.num(fn, C, ed - 1)
            b, kb = self.num(fn, C, ed - 1)
            if ka is None or kb is None:
                return False
            out.append(f'{ind}{v} = ({a}, {b})')
            fn.env[v] = Tu([ka, kb], [self.sf_of(fn, a, C), self.sf_of(fn, b, C)])
            self.features.add('tuple')
        elif k == 'untuple':
            tus = self.vars_of(fn, lambda t: isinstance(t, Tu))
            if not tus:
                return False
            t = ch.choice(tus)
            a, b = fn.fresh('v'), fn.fresh('v')
            out.append(f'{ind}{a}, {b} = {t}')
            fn.env[a] = Sc(fn.env[t].kinds[0], sf=fn.env[t].sfs[0])
            fn.env[b] = Sc(fn.env[t].kinds[1], sf=fn.env[t].sfs[1])
            self.features.add('tuple-destructure')
        elif k == 'assert':
            v = self.scalars(fn)
            if not v:
                return False
            x = ch.choice(v)
            out.append(f'{ind}assert {x} == {x} or fp.isnan({x})' if fn.env[x].kind in FLOATS else f'{ind}assert {x} == {x}')
            self.features.add('assert')
        elif k == 'callstmt':
            hs = self.callable_helpers(fn, C, lambda h: True)
            if not hs:
                return False
            h = ch.choice(hs)
            t = self.call_text(fn, C, h, ed)
            if t is None:
                return False
            if isinstance(h.ret, Sc):
                v = fn.fresh('v')
                fn.env[v] = Sc(h.ret.kind, sf=h.ret_sf)
            elif isinstance(h.ret, Li):
                v = fn.fresh('xs')
                # a returned list may be one of the arguments
                ret_alias = None
                if h.kind == 'returns-arg':
                    for (pn, pt), a in zip(h.params, t[len(h.name) + 1:-1].split(', ')):
                        if isinstance(pt, Li):
                            ret_alias = a
                self.bind(fn, v, Li(h.ret.elem, h.ret.lb, False, sf=h.ret_sf), alias_of=ret_alias)
            elif isinstance(h.ret, Bo):
                v = fn.fresh('b')
                fn.env[v] = Bo()
            else:
                return False
            out.append(f'{ind}{v} = {t}')
        elif k == 'grid3':
            self.grid3_scenario(fn, C, ind, out)
        elif k == 'mode-return':
            return self.mode_return_scenario(fn, C, ind, out, in_with)
        elif k == 'two-site':
            env, obs, n_out, feats = dict(fn.env), list(fn.must_observe), len(out), set(self.features)
            if self.two_site_scenario(fn, C, ind, out) is False and len(out) == n_out:
                fn.env, fn.must_observe, self.features = env, obs, feats       # nothing emitted: nothing stays bound
        elif k == 'loop-bound':
            self.loop_bound_scenario(fn, C, ind, out)
        elif k == 'agg-swap':
            self.agg_swap_scenario(fn, C, ind, out)
        elif k == 'sum-narrow':
            self.sum_narrow_scenario(fn, C, ind, out)
        elif k == 'alias-call':
            return self.alias_call_scenario(fn, C, ind, out, in_with, in_loop)
        elif k == 'return':
            if fn.ret_shape is None:
                return False
            t = self.return_text(fn, C)
            if t is None:
                return False
            out.append(f'{ind}return {t}')
            if in_with:
                self.features.add('early-return-inside-with')
            if in_loop:
                self.features.add('early-return-inside-loop')
            return True
        elif k == 'if':
            out.append(f'{ind}if {self.boolean(fn, C, ed - 1)}:')
            snap = self.snapshot(fn)
            # a name introduced in both arms (hoisted declaration)
            both = fn.fresh('w') if ch.bool(0.5) and C.kind not in ('int', 'real') and not self.narrow(C) else None
            body1 = []
            r1 = self.block(fn, C, ind + '    ', ch.int(1, 3), depth - 1, body1, in_loop, in_with)
            both_sf = []
            if both and not r1:
                t, _ = self.operand(fn, C, ed - 1)
                u, _ = self.operand(fn, C, 0)
                body1.append(f'{ind}    {both} = ({t} + {u})')
                both_sf.append(self.sf_of(fn, f'({t} + {u})', C))
            out += body1
            env1 = dict(fn.env)
            self.restore(fn, snap)
            out.append(f'{ind}else:')
            body2 = []
            r2 = self.block(fn, C, ind + '    ', ch.int(1, 3), depth - 1, body2, in_loop, in_with)
            if both and not r2:
                t, _ = self.operand(fn, C, ed - 1)
                u, _ = self.operand(fn, C, 0)
                op = self.pick_op(fn, C, t, u, ['*'])
                body2.append(f'{ind}    {both} = ({t} {op} {u})')
                both_sf.append(self.sf_of(fn, f'({t} {op} {u})', C))
            out += body2
            env2 = dict(fn.env)
            self.restore(fn, snap)
            self.features.add('if-else')
            if r1 and r2:
                return True
            if both and not r1 and not r2:
                fn.env[both] = Sc(C.kind, sf=len(both_sf) == 2 and all(both_sf))
                self.features.add('name-introduced-in-both-arms')
            # list lengths: keep lower bounds valid (lists are never shortened here, nothing to do)
        elif k == 'if1':
            out.append(f'{ind}if {self.boolean(fn, C, ed - 1)}:')
            snap = self.snapshot(fn)
            self.block(fn, C, ind + '    ', ch.int(1, 2), depth - 1, out, in_loop, in_with)
            self.restore(fn, snap)
            self.features.add('if1')
        elif k == 'for':
            snap = self.snapshot(fn)
            ls = self.lists(fn)
            form = ch.weighted([(5, 'list'), (5, 'range'), (2, 'zip'), (2, 'enum')]) if ls else 'range'
            x = fn.fresh('i')
            if form == 'list':
                l = ch.choice(ls)
                out.append(f'{ind}for {x} in {l}:')
                fn.env[x] = Sc(fn.env[l].elem, sf=fn.env[l].sf)
            elif form == 'range' and ch.bool(0.5):
                # stepped range that ends at a rung of the integer storage ladder: the last body value fits the
                # rung, the value the counter takes on exit does not (<= 4 trips, like every generated loop)
                top = ch.choice([127, 127, 255, 32767, 32767, 65535, 2 ** 31 - 1])
                st = ch.choice([2, 3, 5, 7])
                last = top - ch.int(0, st - 1)
                trips = ch.int(1, 4)
                start = last - st * (trips - 1)
                stop = last + ch.int(1, st)
                out.append(f'{ind}for {x} in range({start}, {stop}, {st}):')
                fn.env[x] = Sc(int_kind_of_range(start, last))
                self.features.add('range-step-at-ladder-rung')
            elif form == 'range':
                n = ch.int(0, 4)
                out.append(f'{ind}for {x} in range({n}):')
                fn.env[x] = Sc('u8' if n > 0 else 's64')
                if n == 0:
                    self.features.add('zero-trip-loop')
            elif form == 'zip':
                l = ch.choice(ls)
                same = [m for m in ls if fn.env[m].exact and fn.env[l].exact and fn.env[m].lb == fn.env[l].lb]
                l2 = ch.choice(same) if same else l
                y = fn.fresh('i')
                out.append(f'{ind}for {x}, {y} in zip({l}, {l2}):')
                fn.env[x] = Sc(fn.env[l].elem, sf=fn.env[l].sf)
                fn.env[y] = Sc(fn.env[l2].elem, sf=fn.env[l2].sf)
                self.features.add('zip')
            else:
                l = ch.choice(ls)
                y = fn.fresh('i')
                out.append(f'{ind}for {x}, {y} in enumerate({l}):')
                fn.env[x] = Sc('u8' if fn.env[l].exact else 's64')
                fn.env[y] = Sc(fn.env[l].elem, sf=fn.env[l].sf)
                self.features.add('enumerate')
            fn.protected.add(x)
            fz = (set(fn.frozen_groups), set(fn.frozen_names))
            if form in ('zip', 'enum'):
                for src in ({l, l2} if form == 'zip' else {l}):
                    fn.frozen_names.add(src)
                    if fn.alias_groups.get(src) is not None:
                        fn.frozen_groups.add(fn.alias_groups[src])
            # loop-carried accumulators: only names that already exist may be reassigned (scoping rule)
            self.block(fn, C, ind + '    ', ch.int(1, 3), depth - 1, out, True, in_with)
            fn.frozen_groups, fn.frozen_names = fz
            self.restore(fn, snap)
            self.features.add('for')
        elif k == 'while':
            if not (C.is_float or C.kind in ('s16', 's32', 's64', 'u16', 'u32', 'u64')):
                return False
            if self.narrow(C):
                self.excl('small-int-ops')      # the counter update is an operator
                return False
            c = fn.fresh('k')
            n = ch.int(0, 3)
            out.append(f'{ind}{c} = {n}')
            fn.env[c] = Sc(C.kind)
            fn.protected.add(c)
            out.append(f'{ind}while {c} > 0:')
            snap = self.snapshot(fn)
            if not self.block(fn, C, ind + '    ', ch.int(1, 2), 0, out, True, in_with):
                out.append(f'{ind}    {c} = {c} - 1')
            self.restore(fn, snap)
            fn.env[c] = Sc(C.kind)
            self.features.add('while')
        elif k == 'with':
            C2 = self.some_ctx(C)
            if C2.is_int and 'float-to-int-range' in EXCLUDE_KNOWN:
                self.emit_clamps(fn, C, C2, ind, out)
            out.append(f'{ind}with {C2.text}:')
            if in_with:
                self.features.add('nested-with')
            if in_loop:
                self.features.add('with-inside-loop')
            if C2.is_float and C.is_float and C2.kind == C.kind and C2.rm != C.rm:
                self.features.add('mode-switch')
            self.features.add('ctx:' + (C2.kind if not C2.is_float else C2.kind + '/' + C2.rm))
            r = self.block(fn, C2, ind + '    ', ch.int(1, 3), depth - 1, out, in_loop, in_with + 1)
            self.features.add('with')
            if not r:
                self.features.add('stmt-after-with')
                # something mode-sensitive right after the block (a missing restore would show)
                if C.is_float and ch.bool(0.6):
                    v = fn.fresh('v')
                    a, _ = self.operand(fn, C, 1)
                    b, _ = self.operand(fn, C, 0)
                    if ch.bool(0.5) or not self.mul_ok(fn, C, a, b):
                        out.append(f'{ind}{v} = ({a} / {b})')
                        fn.env[v] = Sc(C.kind, sf=True)
                    else:
                        out.append(f'{ind}{v} = ({a} * {b} + {a})')
                        fn.env[v] = Sc(C.kind, sf=True)
            return r
        return False


    def accumulator(self, fn, C, ind, out):
        """An existing unprotected scalar of exactly the context's kind, or a fresh one."""
        ch = self.ch
        vs = [v for v in self.scalars(fn, lambda kk: kk == C.kind) if v not in fn.protected and not v.startswith(('a', 'p', 'c'))]
        if vs and ch.bool(0.5):
            return ch.choice(vs)
        acc = fn.fresh('v')
        a, _ = self.operand(fn, C, 1)
        b, _ = self.operand(fn, C, 0)
        out.append(f'{ind}{acc} = ({a} + {b})')
        fn.env[acc] = Sc(C.kind, sf=self.sf_of(fn, f'({a} + {b})', C))
        return acc

    def loop_bound_scenario(self, fn, C, ind, out):
        """A `range` whose bound mentions a name the loop body rebinds: the iterable is evaluated once, on entry."""
        ch = self.ch
        acc = self.accumulator(fn, C, ind, out)
        form = ch.weighted([(4, 'range1'), (3, 'range2'), (3, 'len')])
        ls = self.lists(fn, lambda t: t.lb >= 1)
        if form == 'len' and not ls:
            form = 'range1'
        i = fn.fresh('i')
        u, _ = self.operand(fn, C, 0)
        step = f'{ind}    {acc} = ({acc} + {u})'
        if form == 'range1':
            n = fn.fresh('k')
            out.append(f'{ind}{n} = {ch.int(2, 4)}')
            out.append(f'{ind}for {i} in range({n}):')
            if ch.bool(0.5):      # the bound is rebound only through a tuple destructuring
                out.append(f'{ind}    {n}, {acc} = {n} - 1, ({acc} + {u})')
                self.features.add('loop-bound-rebound-by-destructuring')
            else:
                out.append(f'{ind}    {n} = {n} - 1')
                out.append(step)
            fn.env[n] = Sc(C.kind)
            fn.protected.add(n)
        elif form == 'range2':
            lo, hi = fn.fresh('k'), fn.fresh('k')
            out.append(f'{ind}{lo} = {ch.int(0, 1)}')
            out.append(f'{ind}{hi} = {ch.int(3, 5)}')
            out.append(f'{ind}for {i} in range({lo}, {hi}):')
            if ch.bool(0.5):
                out.append(f'{ind}    {acc}, {hi} = ({acc} + {u}), {hi} - 1')
                self.features.add('loop-bound-rebound-by-destructuring')
            else:
                out.append(f'{ind}    {hi} = {hi} - 1')
                out.append(step)
            fn.env[lo] = Sc('u8')
            fn.env[hi] = Sc(C.kind)
            fn.protected.update((lo, hi))
        else:
            l = ch.choice(ls)
            ys = fn.fresh('xs')
            out.append(f'{ind}{ys} = {l}[:]')
            out.append(f'{ind}for {i} in range(len({ys})):')
            out.append(f'{ind}    {ys} = {ys}[0:1]')
            out.append(step)
            self.bind(fn, ys, Li(fn.env[l].elem, 1, False, sf=fn.env[l].sf))
            if ys not in fn.must_observe:
                fn.must_observe.append(ys)
        fn.env[acc].sf = fn.env[acc].sf and self.sf_of(fn, f'({acc} + {u})', C)
        if acc not in fn.must_observe:
            fn.must_observe.append(acc)
        self.features.add('loop-bound-rebound-in-body')
        self.features.add('for')

    def agg_swap_scenario(self, fn, C, ind, out):
        """`u = t` for a tuple / list, `t` rebound afterwards inside the same loop body or a following branch, `u` read after
        that: the copy must keep the value `t` had (the emitted name may be a reference only while its source stays put)."""
        ch = self.ch

        def field():
            a, _ = self.operand(fn, C, 1)
            b, _ = self.operand(fn, C, 0)
            return f'({a} {self.pick_op(fn, C, a, b, ["+", "-"])} {b})'
        acc = self.accumulator(fn, C, ind, out)
        is_list = ch.bool(0.4)
        loop = ch.bool(0.6)
        t, u = (fn.fresh('xs'), fn.fresh('xs')) if is_list else (fn.fresh('t'), fn.fresh('t'))
        lb, rb = ('[', ']') if is_list else ('(', ')')
        out.append(f'{ind}{t} = {lb}{field()}, {field()}{rb}')
        inner = ind
        if loop:
            i = fn.fresh('i')
            out.append(f'{ind}for {i} in range({ch.int(2, 3)}):')
            inner = ind + '    '
        out.append(f'{inner}{u} = {t}')
        x, _ = self.operand(fn, C, 0)
        if is_list:
            new = f'[{u}[1], ({u}[0] + {x})]'
        else:
            p, q = fn.fresh('v'), fn.fresh('v')
            out.append(f'{inner}{p}, {q} = {u}')
            new = f'({q}, ({p} + {x}))'
        if loop:
            out.append(f'{inner}{t} = {new}')
        else:
            out.append(f'{inner}if {self.boolean(fn, C, 1)}:')
            out.append(f'{inner}    {t} = {new}')
            if ch.bool(0.5):
                out.append(f'{inner}else:')
                out.append(f'{inner}    {t} = {lb}{field()}, {field()}{rb}')
        if is_list:
            out.append(f'{inner}{acc} = ({acc} + {u}[0])')
        else:
            r, s2 = fn.fresh('v'), fn.fresh('v')
            out.append(f'{inner}{r}, {s2} = {u}')
            out.append(f'{inner}{acc} = ({acc} + {r})')
        fn.env[acc].sf = False
        if is_list:
            self.bind(fn, t, Li(C.kind, 2, True, sf=False))
            if not loop:
                self.bind(fn, u, Li(C.kind, 2, True, sf=False))
        else:
            fn.env[t] = Tu([C.kind, C.kind])
            if not loop:
                fn.env[u] = Tu([C.kind, C.kind])
                for n in (p, q, r, s2):
                    fn.env[n] = Sc(C.kind)
        for n in (acc, t):
            if n not in fn.must_observe and not isinstance(fn.env[n], Tu):
                fn.must_observe.append(n)
        self.features.add('aggregate-copy-source-rebound')
        if loop:
            self.features.add('for')

    def sum_narrow_scenario(self, fn, C, ind, out):
        """`sum` over a list of statically known length whose elements are narrower than the context: the accumulator must be
        sized for all n - 1 additions."""
        ch = self.ch
        kc = C.kind
        pinned = self.lists(fn, lambda t: t.exact and t.lb >= 2 and t.elem != kc and fits(t.elem, kc))
        if pinned and ch.bool(0.4):
            l = ch.choice(pinned)
        else:
            narrow = sorted({fn.env[v].kind for v in self.scalars(fn, lambda kk: kk != kc and kk != 'x25' and fits(kk, kc))})
            if narrow and ch.bool(0.7):
                kk = ch.choice(narrow)
                vs = self.scalars(fn, lambda k2: k2 == kk)
                elems = [ch.choice(vs) for _ in range(ch.int(2, 3))]
            elif kc == 'f64':
                # make two binary32 values first
                K = Ctx('f32', ch.choice(RMS))
                out.append(f'{ind}with {K.text}:')
                elems = []
                for _ in range(2):
                    w = fn.fresh('v')
                    out.append(f'{ind}    {w} = {self.inexact(fn, K)}')
                    fn.env[w] = Sc('f32', sf=True)
                    elems.append(w)
                kk = 'f32'
                self.features.add('with')
                self.features.add('ctx:f32/' + K.rm)
            else:
                return
            l = fn.fresh('xs')
            out.append(f'{ind}{l} = [{", ".join(elems)}]')
            self.bind(fn, l, Li(kk, len(elems), True, sf=all(fn.env[e].sf for e in elems)))
        v = fn.fresh('v')
        out.append(f'{ind}{v} = sum({l})')
        fn.env[v] = Sc(kc, sf=fn.env[l].sf)
        if v not in fn.must_observe:
            fn.must_observe.append(v)
        self.features.add('sum')
        self.features.add('sum-known-length-narrow-elements')

    def mode_return_scenario(self, fn, C, ind, out, in_with):
        """A tuple `return` with a computed field lexically inside a `with` block (possibly two, nested) whose rounding mode
        differs from the one in force outside: the field must be evaluated before the emitted code restores the mode."""
        ch = self.ch
        outer_rm = C.rm if C.is_float else None
        K = Ctx(fn.ret_kind, ch.choice([r for r in RMS if r != outer_rm]))
        lines = [f'{ind}with {K.text}:']
        inner = ind + '    '
        if ch.bool(0.3):
            K2 = Ctx(fn.ret_kind, ch.choice([r for r in RMS if r != K.rm]))
            lines.append(f'{inner}with {K2.text}:')
            inner += '    '
            K = K2
            self.features.add('nested-with')
        cond = ch.bool(0.7)
        if cond:
            lines.append(f'{inner}if {self.boolean(fn, K, 1)}:')
            inner += '    '
        t = self.return_text(fn, K)
        if t is None:
            return False
        lines.append(f'{inner}return {t}')
        out += lines
        self.features.add('with')
        self.features.add('early-return-inside-with')
        self.features.add('mode-return')
        self.features.add('ctx:' + K.kind + '/' + K.rm)
        return not cond

    def grid3_scenario(self, fn, C, ind, out):
        """A list nested three deep, a projection of one of its cells (or rows) held in a name, a multi-index store that puts
        ANOTHER list into that slot, and reads of both afterwards: the projection must keep naming the old list."""
        ch = self.ch

        def cell():
            elems = []
            for _ in range(2):
                a, _k = self.operand(fn, C, 1)
                b, _k = self.operand(fn, C, 0)
                elems.append(f'({a} {self.pick_op(fn, C, a, b, ["+", "*", "-", "/"])} {b})')
            return '[' + ', '.join(elems) + ']'
        ni, nj = ch.int(1, 2), ch.int(2, 2)
        g = fn.fresh('g')
        rows = ['[' + ', '.join(cell() for _ in range(nj)) + ']' for _ in range(ni)]
        out.append(f'{ind}{g} = [{", ".join(rows)}]')
        i, j = ch.int(0, ni - 1), ch.int(0, nj - 1)
        held = fn.fresh('xs')
        depth2 = ch.bool(0.75)
        if depth2:
            out.append(f'{ind}{held} = {g}[{i}][{j}]')                  # a cell: list[real]
            # sometimes an unrelated statement in between
            if ch.bool(0.3):
                v0 = fn.fresh('v')
                out.append(f'{ind}{v0} = {g}[{i}][{1 - j}][0]')
                fn.env[v0] = Sc(C.kind, sf=False)
            out.append(f'{ind}{g}[{i}][{j}] = {cell()}')
            self.bind(fn, held, Li(C.kind, 2, True, sf=False))
            v = fn.fresh('v')
            w = fn.fresh('v')
            out.append(f'{ind}{v} = {held}[{ch.int(0, 1)}]')
            out.append(f'{ind}{w} = {g}[{i}][{j}][{ch.int(0, 1)}]')
            fn.env[v] = Sc(C.kind)
            fn.env[w] = Sc(C.kind)
            self.features.add('grid3-cell-replaced-projection-held')
        else:
            # one level up: the held name is a row (list[list[real]]), replaced through one index
            out.append(f'{ind}{held} = {g}[{i}]')
            out.append(f'{ind}{g}[{i}] = [{", ".join(cell() for _ in range(nj))}]')
            fn.env[held] = LL(C.kind, nj, 2, sf=False)
            v = fn.fresh('v')
            w = fn.fresh('v')
            out.append(f'{ind}{v} = {held}[{j}][{ch.int(0, 1)}]')
            out.append(f'{ind}{w} = {g}[{i}][{j}][{ch.int(0, 1)}]')
            fn.env[v] = Sc(C.kind)
            fn.env[w] = Sc(C.kind)
            self.features.add('grid3-row-replaced-projection-held')
        for n in (v, w, held):
            if n not in fn.must_observe:
                fn.must_observe.append(n)
        self.features.add('nested-list-3-deep')

    def emit_clamps(self, fn, C, K, ind, out):
        """Before an integer block: range-clamped copies of a few float variables, the only floats the block may round
        into its context (known/float-to-int-out-of-range-cast).  `c = (v if (LO <= v <= HI) else 0)` under binary64:
        a NaN / infinity / out-of-range value becomes 0, everything else is kept exactly."""
        ch = self.ch
        fl = self.scalars(fn, lambda k: k in FLOATLIKE)
        fl = [v for v in fl if fn.env[v].rng is None]
        if not fl:
            return
        lo, hi = RANGE[K.kind]
        if MAGBITS[K.kind] >= 63:
            lo, hi = (0 if lo == 0 else -2**53), 2**53          # binary64 tokens exactly; far inside the 64-bit range
        picks = []
        for _ in range(ch.int(1, 2)):
            v = ch.choice(fl)
            if v not in picks:
                picks.append(v)
        inner = ind
        if C.kind != 'f64':
            out.append(f'{ind}with fp.IEEEContext(11, 64, fp.RM.RNE):')
            inner = ind + '    '
        for v in picks:
            c = fn.fresh('c')
            lo_t = '0' if lo == 0 else f'(-{-lo})'
            out.append(f'{inner}{c} = ({v} if ({lo_t} <= {v} <= {hi}) else 0)')
            fn.env[c] = Sc(fn.env[v].kind, rng=(lo, hi), sf=fn.env[v].sf)
            fn.protected.add(c)
        self.features.add('clamped-float-for-int-round')

    def alias_call_scenario(self, fn, C, ind, out, in_with, in_loop):
        env, groups, obs, n_out, feats = dict(fn.env), dict(fn.alias_groups), list(fn.must_observe), len(out), set(self.features)
        r = self._alias_call_scenario(fn, C, ind, out, in_with, in_loop)
        if r is None:
            # aborted: nothing was emitted, so nothing may stay bound
            fn.env, fn.alias_groups, fn.must_observe = env, groups, obs
            del out[n_out:]
            self.features = feats
            return False
        return r

    def _alias_call_scenario(self, fn, C, ind, out, in_with, in_loop):
        """A list reachable through two names (or a name and a container slot) handed to a helper that may write it,
        then read back through the *other* access path."""
        ch = self.ch
        if (fn.frozen_groups or fn.frozen_names) and 'iter-elim-body-writes' in EXCLUDE_KNOWN:
            return None
        hs = [h for h in self.helpers if h.params and isinstance(h.params[0][1], (Li, LL))]
        h = ch.choice(hs)
        pt = h.params[0][1]
        # the call must run under a context of the kind the helper body was generated for
        H = h.own_ctx or h.assumed
        inner = ind
        K = C
        if h.own_ctx is None and C.kind != H.kind:
            K = Ctx(H.kind, ch.choice(RMS) if H.is_float else None)
            out.append(f'{ind}with {K.text}:')
            inner = ind + '    '
            self.features.add('with')
            self.features.add('ctx:' + (K.kind if not K.is_float else K.kind + '/' + K.rm))
        ek = pt.elem
        lines = []
        if isinstance(pt, Li):
            need = h.minlen.get('p0', 1)
            need_sf = pt.sf and self.no_negzero()
            cands = self.lists(fn, lambda t: t.elem == ek and t.lb >= need and (t.sf or not need_sf))
            if cands and ch.bool(0.6):
                base = ch.choice(cands)
            else:
                if K.kind != ek:
                    return None
                base = fn.fresh('xs')
                n = need + ch.int(0, 2)
                elems = []
                for _ in range(n):
                    a, _k = self.operand(fn, K, 1)
                    b, _k = self.operand(fn, K, 0)
                    elems.append(f'({a} {self.pick_op(fn, K, a, b, ["+", "*", "-"])} {b})' if K.kind not in NARROW_INTS else f'fp.round({a})')
                lines.append(f'{inner}{base} = [{", ".join(elems)}]')
                base_sf = any(self.sf_of(fn, e, K) for e in elems)
                if need_sf and not base_sf:
                    self.excl('int-format-neg-zero')
                    return None
                self.bind(fn, base, Li(ek, n, True, sf=base_sf))
            shape = ch.weighted([(5, 'name'), (4, 'rows'), (2, 'both')])
            arg = base
            readers = []
            if shape in ('name', 'both'):
                al = fn.fresh('xs')
                lines.append(f'{inner}{al} = {base}')
                self.bind(fn, al, Li(ek, fn.env[base].lb, fn.env[base].exact, sf=fn.env[base].sf), alias_of=base)
                arg = al if ch.bool(0.5) else base
                readers.append(base if arg == al else al)
                self.features.add('list-alias')
            if shape in ('rows', 'both'):
                xss = fn.fresh('xss')
                n_rows = ch.int(1, 3)
                lines.append(f'{inner}{xss} = [{", ".join([base] * n_rows)}]')
                fn.env[xss] = LL(ek, n_rows, fn.env[base].lb, sf=fn.env[base].sf)
                g = fn.alias_groups.get(base)
                if g is None:
                    g = fn.next_group
                    fn.next_group += 1
                    fn.alias_groups[base] = g
                fn.alias_groups[xss] = g
                readers.append(xss)
                self.features.add('nested-list')
                if n_rows > 1:
                    self.features.add('nested-list-shared-rows')
            if ('p0' in h.mutates or h.kind == 'returns-arg') and base in fn.env and self.no_store(fn, base):
                return None
            call = self.call_text_with(fn, K, h, arg)
            if call is None:
                return None
            out += lines
            v = fn.fresh('v') if isinstance(h.ret, Sc) else fn.fresh('xs')
            out.append(f'{inner}{v} = {call}')
            if isinstance(h.ret, Sc):
                fn.env[v] = Sc(h.ret.kind, sf=h.ret_sf)
            else:
                self.bind(fn, v, Li(h.ret.elem, h.ret.lb, False, sf=h.ret_sf), alias_of=arg if h.kind == 'returns-arg' else None)
                if h.kind == 'returns-arg' and ch.bool(0.6):
                    # write through the returned handle, read through the original
                    t, _k = self.operand(fn, K, 0) if K.kind == ek else (None, None)
                    if t is not None:
                        out.append(f'{inner}{v}[0] = ({t} + {t})')
                        self.features.add('write-through-returned-list')
            # read back through the other path, right away (and again in the final return)
            for r in readers:
                w = fn.fresh('v')
                if isinstance(fn.env[r], LL):
                    out.append(f'{inner}{w} = {r}[{ch.int(0, fn.env[r].lb - 1)}][0]')
                else:
                    out.append(f'{inner}{w} = {r}[0]')
                fn.env[w] = Sc(ek, sf=fn.env[r].sf)
                if r not in fn.must_observe:
                    fn.must_observe.append(r)
            if 'p0' in h.mutates and readers:
                self.features.add('callee-writes-aliased-list')
            if 'p0' in h.mutates:
                self.features.add('callee-writes-list')
            if base not in fn.must_observe:
                fn.must_observe.append(base)
        else:
            need_sf = pt.sf and self.no_negzero()
            cands = self.vars_of(fn, lambda t: isinstance(t, LL) and t.elem == ek and t.lb >= pt.lb and t.inner_lb >= pt.inner_lb
                                 and (t.sf or not need_sf))
            rows = self.lists(fn, lambda t: t.elem == ek and t.lb >= pt.inner_lb and (t.sf or not need_sf))
            if not cands and not rows:
                return None
            if rows and (not cands or ch.bool(0.6)):
                row = ch.choice(rows)
                xss = fn.fresh('xss')
                n_rows = max(pt.lb, ch.int(1, 3))
                lines.append(f'{inner}{xss} = [{", ".join([row] * n_rows)}]')
                fn.env[xss] = LL(ek, n_rows, fn.env[row].lb, sf=fn.env[row].sf)
                g = fn.alias_groups.get(row)
                if g is None:
                    g = fn.next_group
                    fn.next_group += 1
                    fn.alias_groups[row] = g
                fn.alias_groups[xss] = g
                readers = [row]
                self.features.add('nested-list')
                self.features.add('nested-list-shared-rows')
            else:
                xss = ch.choice(cands)
                readers = []
            if 'p0' in h.mutates and (self.no_store(fn, xss) if xss in fn.alias_groups else False):
                return None
            call = self.call_text_with(fn, K, h, xss)
            if call is None:
                return None
            out += lines
            v = fn.fresh('v')
            out.append(f'{inner}{v} = {call}')
            fn.env[v] = Sc(h.ret.kind, sf=h.ret_sf) if isinstance(h.ret, Sc) else Sc(ek)
            for r in readers:
                w = fn.fresh('v')
                out.append(f'{inner}{w} = {r}[0]')
                fn.env[w] = Sc(ek, sf=fn.env[r].sf)
                if r not in fn.must_observe:
                    fn.must_observe.append(r)
            if xss not in fn.must_observe:
                fn.must_observe.append(xss)
            if 'p0' in h.mutates:
                self.features.add('callee-writes-list')
                if readers:
                    self.features.add('callee-writes-aliased-list')
        self.features.add('helper-call')
        self.features.add('helper-with-own-ctx' if h.own_ctx is not None else 'helper-inherits-ctx')
        return False

    def call_text_with(self, fn, C, h, first_arg):
        """Call of h with a fixed first (list) argument; scalar arguments as in call_text."""
        ch = self.ch
        args = [first_arg]
        for pn, pt in h.params[1:]:
            if isinstance(pt, Bo):
                args.append(self.bool_arg(fn, C))
                continue
            if not isinstance(pt, Sc):
                return None
            cands = self.scalars(fn, lambda k: fits(k, pt.kind))
            if pt.sf and self.no_negzero():
                # the callee is specialised on the argument's format: a parameter it treats as float-stored gets one
                cands = [v for v in cands if fn.env[v].sf]
            if cands and ch.bool(0.7):
                args.append(ch.choice(cands))
            else:
                t, k = self.num(fn, C, 1)
                if not fits(k, pt.kind):
                    if C.kind == pt.kind:
                        t = f'fp.round({t})'
                    else:
                        return None
                if pt.sf and self.no_negzero() and not self.sf_of(fn, t, C):
                    if not cands:
                        self.excl('int-format-neg-zero')
                        return None
                    t = ch.choice(cands)
                args.append(t)
        return f'{h.name}({", ".join(args)})'

    # ------------------------------------------------------------------ returns
    def pick_ret_shape(self, fn, is_main):
        ch = self.ch
        if is_main:
            return ch.weighted([(10, 'big'), (3, 'scalar'), (3, 'list'), (5, 'pair'), (2, 'nested')])
        return ch.weighted([(8, 'scalar'), (3, 'list'), (1, 'bool')])

    def inexact(self, fn, C: Ctx):
        """An operation under C whose result depends on the rounding mode for most operands."""
        ch = self.ch
        a, _ = self.operand(fn, C, 1)
        b, _ = self.operand(fn, C, 0)
        if ch.bool(0.5) or not self.mul_ok(fn, C, a, b):
            return f'({a} / {b})'
        c, _ = self.operand(fn, C, 0)
        return f'({a} * {b} + {c})'

    def tuple_field(self, fn, C: Ctx, kind):
        """A tuple-return field of `kind`: a variable, or -- when the active context has that kind -- an inexact operation
        evaluated inside the return statement itself (a `return` inside a `with` must evaluate it before the mode is restored)."""
        ch = self.ch
        cands = self.scalars(fn, lambda k: fits(k, kind))
        if C.kind == kind and C.is_float and (not cands or ch.bool(0.45)):
            self.features.add('tuple-return-computed-field')
            return self.inexact(fn, C)
        return ch.choice(cands) if cands else None

    def return_text(self, fn, C: Ctx):
        """Text of a value of the function's return shape, from what is in scope (None if impossible)."""
        ch = self.ch
        shape = fn.ret_shape
        sc = self.scalars(fn)
        if shape == 'scalar':
            # every return of one function must have a common storage: all are members of fn.ret_kind
            cands = self.scalars(fn, lambda k: fits(k, fn.ret_kind))
            if cands and ch.bool(0.8):
                return ch.choice(cands)
            if C.kind == fn.ret_kind:
                a, _ = self.operand(fn, C, 1)
                b, _ = self.operand(fn, C, 0)
                return f'({a} + {b})'
            return ch.choice(cands) if cands else None
        if shape == 'bool':
            bs = self.vars_of(fn, lambda t: isinstance(t, Bo))
            return ch.choice(bs) if bs else None
        if shape == 'list':
            ls = self.lists(fn, lambda t: t.elem == fn.ret_elem) if getattr(fn, 'ret_elem', None) else self.lists(fn)
            if not ls:
                return None
            l = ch.choice(ls)
            fn.ret_elem = fn.env[l].elem
            return l
        if shape == 'nested':
            lls = self.vars_of(fn, lambda t: isinstance(t, LL) and (getattr(fn, 'ret_elem', None) in (None, t.elem)))
            if not lls:
                return None
            l = ch.choice(lls)
            fn.ret_elem = fn.env[l].elem
            return l
        if shape == 'pair':
            a = self.tuple_field(fn, C, fn.ret_kind)
            b = self.tuple_field(fn, C, fn.ret_kind)
            if a is None or b is None:
                return None
            return f'({a}, {b})'
        # 'big': fixed layout chosen at the first return:  list of slot types
        if getattr(fn, 'big_layout', None) is None:
            # an early return comes first: a layout every later return (the closing one runs under the top-level context,
            # whose kind is fn.ret_kind) can fill: scalars of the return kind, a bool, list parameters
            layout = [('S', fn.ret_kind) for _ in range(ch.int(2, 3))]
            if ch.bool(0.4):
                layout.append(('B',))
            for n in sorted(fn.env):
                if n.startswith('a') and isinstance(fn.env[n], Li) and ch.bool(0.6):
                    layout.append(('L', fn.env[n].elem))
            fn.big_layout = layout
        parts = []
        for slot in fn.big_layout:
            if slot[0] == 'S':
                t = self.tuple_field(fn, C, slot[1])
                if t is None:
                    return None
                parts.append(t)
            elif slot[0] == 'B':
                bs = self.vars_of(fn, lambda t: isinstance(t, Bo))
                parts.append(ch.choice(bs) if bs else 'True')
            elif slot[0] == 'L':
                ls = self.lists(fn, lambda t: t.elem == slot[1])
                if not ls:
                    return None
                parts.append(ch.choice(ls))
            elif slot[0] == 'LL':
                ls = self.vars_of(fn, lambda t: isinstance(t, LL) and t.elem == slot[1])
                if not ls:
                    return None
                parts.append(ch.choice(ls))
        return '(' + ', '.join(parts) + (',' if len(parts) == 1 else '') + ')'

    def final_return(self, fn, C: Ctx):
        """The closing return: as many observables as the shape allows."""
        ch = self.ch
        shape = fn.ret_shape
        if shape == 'big':
            names = []
            for n in fn.must_observe:
                if n in fn.env and n not in names:
                    names.append(n)
            rest = [n for n in sorted(fn.env) if n not in names and not isinstance(fn.env[n], Tu)]
            # newest first: they depend on the most
            rest.sort(key=lambda n: -int(''.join(c for c in n if c.isdigit()) or 0))
            for n in rest:
                if len(names) >= 7:
                    break
                if ch.bool(0.75):
                    names.append(n)
            if not names:
                names = [sorted(fn.env)[0]]
            layout = []
            for n in names:
                t = fn.env[n]
                layout.append(('S', t.kind) if isinstance(t, Sc) else ('B',) if isinstance(t, Bo) else (t.key()[0], t.elem))
            if getattr(fn, 'big_layout', None) is None:
                fn.big_layout = layout
                return '(' + ', '.join(names) + (',' if len(names) == 1 else '') + ')'
            t = self.return_text(fn, C)
            return t
        t = self.return_text(fn, C)
        return t

    # ------------------------------------------------------------------ functions
    def gen_helper(self, idx):
        ch = self.ch
        name = f'h{idx}'
        kind = ch.weighted([(7, 'scalar'), (6, 'writes-list'), (2, 'returns-arg'), (2, 'new-list'), (2, 'writes-nested')])
        own = self.float_ctx() if ch.bool(0.4) else None
        if own is None:
            assumed = self.float_ctx()
        else:
            assumed = own
        if own is None and ch.bool(0.15):
            assumed = Ctx(ch.choice(['s32', 'u32', 's64']))
        fn = Fn(name, False)
        params = []
        minlen = {}
        mutates = set()
        ek = assumed.kind
        if kind == 'writes-nested':
            params.append(('p0', LL(ek, ch.int(1, 2), ch.int(1, 2), sf=ek in FLOATS)))
        elif kind != 'scalar':
            n = ch.int(1, 3)
            params.append(('p0', Li(ek, n, False, sf=ek in FLOATS)))
            minlen['p0'] = n
        nsc = ch.int(1, 2)
        for i in range(nsc):
            k = ch.choice(['f32', 'f64', 'f64']) if assumed.is_float else assumed.kind
            if kind == 'scalar' and i == 0 and assumed.is_float:
                k = 'f64'          # accepts binary32 and binary64 arguments: one specialisation per argument format
            params.append((f'p{len(params)}', Sc(k, sf=k in FLOATS)))
        pb = None
        if ch.bool(0.65 if kind == 'scalar' else 0.3):
            # a non-numeric parameter next to the numeric ones (its format is "trivial" for specialisation keys)
            pb = f'p{len(params)}'
            params.append((pb, Bo()))
        for n, t in params:
            fn.env[n] = t
            if isinstance(t, (Li, LL)):
                fn.alias_groups[n] = fn.next_group
                fn.next_group += 1
        body = []
        C = assumed
        if kind in ('writes-list', 'returns-arg'):
            t, _ = self.operand(fn, C, 2)
            if C.kind != ek:
                # the stored value must be a member of the element format
                cands = self.scalars(fn, lambda kk: fits(kk, ek))
                t = ch.choice(cands) if cands else None
            if t is not None:
                body.append(f'    p0[{ch.int(0, minlen["p0"] - 1)}] = {t}')
                mutates.add('p0')
            if ch.bool(0.4) and C.kind == ek:
                i = fn.fresh('i')
                body.append(f'    for {i} in range({minlen["p0"]}):')
                u, _ = self.operand(fn, C, 0)
                body.append(f'        p0[{i}] = (p0[{i}] {self.pick_op(fn, C, "p0[0]", u, ["+", "*"])} {u})')
                mutates.add('p0')
        if kind == 'writes-nested':
            t0 = params[0][1]
            cands = self.scalars(fn, lambda kk: fits(kk, ek))
            if C.kind == ek:
                t, _ = self.operand(fn, C, 1)
            else:
                t = ch.choice(cands) if cands else None
            if t is not None:
                body.append(f'    p0[{ch.int(0, t0.lb - 1)}][{ch.int(0, t0.inner_lb - 1)}] = {t}')
                mutates.add('p0')
        fn.ret_shape = {'scalar': 'scalar', 'writes-list': 'scalar', 'returns-arg': 'list', 'new-list': 'list', 'writes-nested': 'scalar'}[kind]
        fn.ret_kind = assumed.kind
        for _ in range(ch.int(0, 2)):
            self.stmt_simple(fn, C, '    ', body)
        ret_sf = False
        if kind == 'returns-arg':
            body.append('    return p0')
            ret = Li(ek, minlen['p0'], False)
            ret_sf = fn.env['p0'].sf
        elif kind == 'new-list':
            v = 'e0'
            fn.env[v] = Sc(ek, sf=fn.env['p0'].sf)
            b, kk = self.elem_body(fn, C, 1, v)
            ret_sf = self._body_sf
            del fn.env[v]
            body.append(f'    return [{b} for {v} in p0]')
            ret = Li(kk, minlen['p0'], False)
        else:
            t, kk = self.num(fn, C, 2)
            if kk not in FLOATS and C.is_float:
                t, kk = f'({t} + {self.operand(fn, C, 0)[0]})', C.kind
            if pb is not None and C.is_float and kk == C.kind:
                a2, _ = self.operand(fn, C, 1)
                b2, _ = self.operand(fn, C, 0)
                t = f'({t} if {pb} else ({a2} + {b2}))'
                self.features.add('helper-bool-param')
            body.append(f'    return {t}')
            ret = Sc(kk)
            ret_sf = self.sf_of(fn, t, C)
        ann = {Sc: 'fp.Real', Li: 'list[fp.Real]', LL: 'list[list[fp.Real]]', Bo: 'bool'}
        sig = ', '.join(f'{n}: {ann[type(t)]}' for n, t in params)
        deco = '@fp.fpy' if own is None else f'@fp.fpy(ctx={own.text})'
        self.lines += [deco, f'def {name}({sig}):'] + body + ['']
        if own is not None:
            self.features.add('helper-declares-ctx')
        h = Helper(name, params, ret, own, assumed, mutates, minlen, kind)
        h.ret_sf = ret_sf
        return h

    def stmt_simple(self, fn, C, ind, out):
        ch = self.ch
        v = fn.fresh('v')
        t, kk = self.num(fn, C, 2)
        out.append(f'{ind}{v} = {t}')
        fn.env[v] = Sc(kk, sf=self.sf_of(fn, t, C))

    def gen_main(self):
        ch = self.ch
        fn = Fn('kern', True)
        top = self.float_ctx()
        declares = ch.bool(0.3)
        params = []
        n = ch.int(1, 3)
        for i in range(n):
            r = ch.int(0, 99)
            if r < 50 or (self.p_lists == 0.0 and r < 90):
                k = ch.weighted([(5, 'f32'), (7, 'f64'), (1, 's8'), (2, 's16'), (2, 's32'), (1, 'u8'), (1, 'u16'), (1, 's64'), (1, 'u32'), (3, 'x25')])
                params.append((f'a{i}', Sc(k, sf=k in FLOATS)))
            elif r < 88:
                k = ch.choice(['f32', 'f64', 'f64', 'f32', 'f64', 'f64', 'x25'])
                pinned = ch.bool(0.5)
                lb = ch.int(1, 4) if pinned or ch.bool(0.8) else 0
                params.append((f'a{i}', Li(k, lb, pinned, sf=k in FLOATS)))
            elif r < 95:
                params.append((f'a{i}', LL(ch.choice(['f32', 'f64']), ch.int(1, 2), ch.int(1, 3), sf=True)))
            else:
                params.append((f'a{i}', Bo()))
        for nme, t in params:
            fn.env[nme] = t
            if isinstance(t, (Li, LL)):
                fn.alias_groups[nme] = fn.next_group
                fn.next_group += 1
        fn.ret_shape = self.pick_ret_shape(fn, True)
        fn.ret_kind = top.kind
        body = []
        if self.helpers and ch.bool(0.6):
            env, obs, feats = dict(fn.env), list(fn.must_observe), set(self.features)
            if self.two_site_scenario(fn, top, '    ', body) is False and not body:
                fn.env, fn.must_observe, self.features = env, obs, feats
        returned = self.block(fn, top, '    ', ch.int(3, self.max_stmts), 3, body)
        if not returned:
            t = self.final_return(fn, top)
            if t is None:
                # fall back to the big shape when the chosen one is not available
                if not self._has_return(body):
                    fn.ret_shape = 'big'
                    fn.big_layout = None
                    t = self.final_return(fn, top)
                else:
                    t = None
            if t is None:
                return None
            body.append(f'    return {t}')
        ann = {Sc: 'fp.Real', Li: 'list[fp.Real]', LL: 'list[list[fp.Real]]', Bo: 'bool'}
        sig = ', '.join(f'{n}: {ann[type(t)]}' for n, t in params)
        deco = f'@fp.fpy(ctx={top.text})' if declares else '@fp.fpy'
        self.lines += [deco, f'def kern({sig}):'] + body + ['']
        if declares:
            self.features.add('main-declares-ctx')
        return fn, params, top, declares

    @staticmethod
    def _has_return(body):
        return any(l.strip().startswith('return') for l in body)


# ---------------------------------------------------------------------------
# inputs

def _f32(x):
    return struct.unpack('<f', struct.pack('<f', x))[0]


F32_ORD = [1.0, -1.0, 0.5, 1.5, 3.0, -2.5, 100.0, _f32(0.1), _f32(1 / 3), 7.0, 10.0, _f32(1e-3), 0.75, -3.25, 255.0, _f32(12345.678),
           2.0, -7.0, _f32(1e10), 65536.0, 16777215.0, _f32(0.3)]
F32_SPECIAL = [0.0, -0.0, float('inf'), float('-inf'), float('nan'), _f32(1e-45), _f32(1.17549435e-38), _f32(3.4028235e38), 16777216.0,
               2147483648.0, _f32(2147483520.0), -2147483648.0, _f32(9.223372e18), _f32(-3.4028235e38), _f32(1e-40), _f32(4294967296.0),
               _f32(1.0000001), 8388609.0, 128.0, -129.0, 32768.0, 65535.0]
F64_ORD = F32_ORD + [0.1, 1 / 3, 1e-3, 12345.678, 1.0000000000000002, 0.3, 2.718281828459045, -0.7, 1e15, 123456789.0]
F64_SPECIAL = F32_SPECIAL + [1e300, -1e300, 1e-320, 5e-324, 1.7976931348623157e308, 3.4028235677973366e38, 1e39, -1e39, 9007199254740992.0,
                             9223372036854775808.0, 9.2e18, 2147483647.0, -2147483649.0, 4294967295.0, 65535.5, 1.00000005960464477539,
                             16777217.0, 1e-46, 2147483647.5, 1.8446744073709552e19, -9223372036854775808.0, 4294967296.5, 1e22]


X25_POOL = [0.5, -0.5, 16777215.5, -16777216.0, 8388608.5, 3.0, 12345678.5, -8388609.5, 0.0, 1.5, 100.0, 16777214.5, -16777215.5, 4194304.5]


def int_pool(kind):
    lo, hi = RANGE[kind]
    base = [0, 1, 2, 3, 5, 7, 10, 100, hi, hi - 1, hi // 2, hi // 3]
    if lo < 0:
        base += [-1, -2, -7, lo, lo + 1, lo // 2]
    return [v for v in base if lo <= v <= hi]


def gen_scalar(ch, kind, special_p):
    if kind == 'f32':
        return ch.choice(F32_SPECIAL) if ch.bool(special_p) else ch.choice(F32_ORD)
    if kind == 'f64':
        return ch.choice(F64_SPECIAL) if ch.bool(special_p) else ch.choice(F64_ORD)
    if kind == 'x25':
        return ch.choice(X25_POOL)
    return ch.choice(int_pool(kind))


def gen_inputs(ch, params, n):
    out = []
    for j in range(n):
        special_p = [0.0, 0.1, 0.3, 0.6][j % 4]
        args = []
        for _, t in params:
            if isinstance(t, Sc):
                args.append(gen_scalar(ch, t.kind, special_p))
            elif isinstance(t, Bo):
                args.append(ch.bool())
            elif isinstance(t, Li):
                k = t.lb if t.exact else t.lb + ch.int(0, 3)
                args.append([gen_scalar(ch, t.elem, special_p) for _ in range(k)])
            elif isinstance(t, LL):
                rows = t.lb + ch.int(0, 1)
                cols = t.inner_lb + ch.int(0, 2)
                args.append([[gen_scalar(ch, t.elem, special_p) for _ in range(cols)] for _ in range(rows)])
        out.append(args)
    return out


def type_desc(t):
    if isinstance(t, Sc):
        return t.kind
    if isinstance(t, Bo):
        return 'bool'
    if isinstance(t, Li):
        return {'L': t.elem, 'n': t.lb if t.exact else None}
    if isinstance(t, LL):
        return {'L': {'L': t.elem, 'n': None}, 'n': None}
    raise ValueError(t)


def enc_val(a):
    if isinstance(a, list):
        return {'L': [enc_val(x) for x in a]}
    if isinstance(a, bool):
        return {'b': a}
    if isinstance(a, float):
        return {'f': a.hex() if a == a and a not in (float('inf'), float('-inf')) else repr(a)}
    return {'i': a}


N_INPUTS = 6


def gen_case(ch: Chooser, shard=0, n_inputs=N_INPUTS):
    for attempt in range(20):
        g = Gen(ch, shard)
        nh = ch.weighted([(3, 0), (4, 1), (3, 2)])
        for i in range(nh):
            g.helpers.append(g.gen_helper(i))
        m = g.gen_main()
        if m is None:
            continue
        fn, params, top, declares = m
        inputs = gen_inputs(ch, params, n_inputs)
        extra = []
        if g.helpers and 'helper-call' in g.features and ch.bool(0.3):
            h = ch.choice(g.helpers)
            hc = h.own_ctx or h.assumed
            extra.append({'name': h.name, 'ctx': hc.text, 'arg_types': [type_desc(t) for _, t in h.params]})
        return {
            'src': '\n'.join(g.lines) + '\n',
            'main': 'kern',
            'ctx': top.text,
            'arg_types': [type_desc(t) for _, t in params],
            'entry_rm': top.rm,
            'inputs': [[enc_val(a) for a in args] for args in inputs],
            'features': sorted(g.features | ({'helper-also-public'} if extra else set())),
            'excluded': dict(sorted(g.excluded.items())),
            'extra_public': extra,
        }
    raise RuntimeError('generator failed to produce a program')
