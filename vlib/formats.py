"""
Builders of (fpy2 context, oracle Model) pairs from public constructor parameters, and
enumerators of breakpoint operands and carriers.
"""

from __future__ import annotations

from fractions import Fraction

import fpy2 as fp
from fpy2.number import Float, RealFloat

from . import refdec
from .denote import NAN, NINF, NZERO, PINF, PZERO, den, pow2, to_float_obj
from .oracle_round import MODES, Model, floor_log2, member, on_grid

RM = {m: getattr(fp.RM, m) for m in MODES}
OV = {m: getattr(fp.OV, m) for m in ('OVERFLOW', 'SATURATE', 'WRAP', 'ASSERT')}
NANKIND = {0: fp.EFloatNanKind.IEEE_754, 1: fp.EFloatNanKind.MAX_VAL,
           2: fp.EFloatNanKind.NEG_ZERO, 3: fp.EFloatNanKind.NONE}


def rf(q: Fraction) -> RealFloat:
    """RealFloat for a dyadic rational."""
    f = to_float_obj(q if q != 0 else PZERO)
    return RealFloat(s=f.s, c=f.c, exp=f.exp)


def fl(d):
    """Float for a denotation, or None."""
    return None if d is None else to_float_obj(d)


# ---------------------------------------------------------------------------
# builders: each returns (ctx, Model) or raises the constructor's exception

def mk_mp(p, rm='RNE', enable_nan=True, enable_inf=True, nan_value=None, inf_value=None, **kw):
    ctx = fp.MPFloatContext(p, RM[rm], enable_nan=enable_nan, enable_inf=enable_inf,
                            nan_value=fl(nan_value), inf_value=fl(inf_value), **kw)
    m = Model('mp', p=p, nmin=None, rm=rm, has_nan=enable_nan, has_inf=enable_inf,
              nan_sub=nan_value, inf_sub=inf_value, inf_resign=True,
              label=f'MPFloatContext({p},{rm},nan={enable_nan},inf={enable_inf},nv={nan_value},iv={inf_value})')
    return ctx, m


def mk_mps(p, emin, rm='RNE', enable_nan=True, enable_inf=True, nan_value=None, inf_value=None, **kw):
    ctx = fp.MPSFloatContext(p, emin, RM[rm], enable_nan=enable_nan, enable_inf=enable_inf,
                             nan_value=fl(nan_value), inf_value=fl(inf_value), **kw)
    m = Model('mps', p=p, nmin=emin - p, rm=rm, has_nan=enable_nan, has_inf=enable_inf,
              nan_sub=nan_value, inf_sub=inf_value, inf_resign=True,
              label=f'MPSFloatContext({p},{emin},{rm},nan={enable_nan},inf={enable_inf},nv={nan_value},iv={inf_value})')
    return ctx, m


def mk_mpb(p, emin, maxval: Fraction, rm='RNE', overflow='OVERFLOW', neg_maxval: Fraction | None = None,
           enable_nan=True, enable_inf=True, nan_value=None, inf_value=None, **kw):
    ctx = fp.MPBFloatContext(p, emin, rf(maxval), RM[rm], OV[overflow],
                             neg_maxval=None if neg_maxval is None else rf(neg_maxval),
                             enable_nan=enable_nan, enable_inf=enable_inf,
                             nan_value=fl(nan_value), inf_value=fl(inf_value), **kw)
    m = Model('mpb', p=p, nmin=emin - p, pos_max=maxval,
              neg_max=-maxval if neg_maxval is None else neg_maxval, rm=rm, overflow=overflow,
              has_nan=enable_nan, has_inf=enable_inf, nan_sub=nan_value, inf_sub=inf_value, inf_resign=True,
              label=f'MPBFloatContext({p},{emin},{maxval},{rm},{overflow},neg={neg_maxval},nan={enable_nan},'
                    f'inf={enable_inf},nv={nan_value},iv={inf_value})')
    return ctx, m


import functools


@functools.lru_cache(maxsize=4096)
def _efloat_vals(es, nbits, enable_inf, nan_kind, eoffset):
    return tuple(refdec.efloat_all(es, nbits, enable_inf, nan_kind, eoffset))


def efloat_summary_analytic(es, nbits, enable_inf, nan_kind, eoffset):
    """(pos_max, neg_max, has_nan, has_inf, has_neg_zero) for nbits >= 4 without enumerating patterns:
    the magnitude codes are monotone in value and the special codes sit at the top (or at -0)."""
    assert nbits >= 4
    m = nbits - 1 - es
    allones = (1 << (nbits - 1)) - 1
    emask = (1 << es) - 1
    if nan_kind == refdec.IEEE_754:
        assert es >= 1
        top = (emask << m) - 1
        has_nan = (not enable_inf) or m >= 1
        has_inf = enable_inf
    elif nan_kind == refdec.MAX_VAL:
        top = allones - (2 if enable_inf else 1)
        has_nan, has_inf = True, enable_inf
    else:
        top = allones - (1 if enable_inf else 0)
        has_nan, has_inf = nan_kind == refdec.NEG_ZERO, enable_inf
    mx = refdec.efloat_decode(es, nbits, enable_inf, nan_kind, eoffset, top)
    mx = mx if isinstance(mx, Fraction) else Fraction(0)
    return mx, -mx, has_nan, has_inf, nan_kind != refdec.NEG_ZERO


def efloat_model(es, nbits, enable_inf, nan_kind, eoffset, rm, overflow, nan_value=None, inf_value=None, kind='efloat'):
    if nbits > 11:
        pos_max, neg_max, has_nan, has_inf, has_nz = efloat_summary_analytic(es, nbits, enable_inf, nan_kind, eoffset)
        p, emin = refdec.efloat_params(es, nbits, eoffset)
        m = Model(kind, p=p, nmin=emin - p, pos_max=pos_max, neg_max=neg_max, rm=rm, overflow=overflow,
                  has_nan=has_nan, has_inf=has_inf, has_neg_zero=has_nz,
                  nan_sub=nan_value, inf_sub=inf_value, inf_resign=True,
                  efloat_nan_default=('inf' if has_inf else 'max'),
                  efloat_inf_default=('nan' if has_nan else 'max'),
                  label=f'EFloatContext({es},{nbits},{enable_inf},{nan_kind},{eoffset},{rm},{overflow},nv={nan_value},iv={inf_value})')
        return m, None
    vals = _efloat_vals(es, nbits, enable_inf, nan_kind, eoffset)
    fin = [v for v in vals if isinstance(v, Fraction)]
    p, emin = refdec.efloat_params(es, nbits, eoffset)
    pos_max = max([v for v in fin if v > 0], default=Fraction(0))
    neg_max = min([v for v in fin if v < 0], default=Fraction(0))
    has_nan = NAN in vals
    has_inf = PINF in vals
    m = Model(kind, p=p, nmin=emin - p, pos_max=pos_max, neg_max=neg_max, rm=rm, overflow=overflow,
              has_nan=has_nan, has_inf=has_inf, has_neg_zero=NZERO in vals,
              nan_sub=nan_value, inf_sub=inf_value, inf_resign=True,
              efloat_nan_default=('inf' if has_inf else 'max'),
              efloat_inf_default=('nan' if has_nan else 'max'),
              label=f'EFloatContext({es},{nbits},{enable_inf},{nan_kind},{eoffset},{rm},{overflow},nv={nan_value},iv={inf_value})')
    return m, vals


def mk_efloat(es, nbits, enable_inf, nan_kind, eoffset, rm='RNE', overflow='OVERFLOW',
              nan_value=None, inf_value=None, **kw):
    ctx = fp.EFloatContext(es, nbits, enable_inf, NANKIND[nan_kind], eoffset, RM[rm], OV[overflow],
                           nan_value=fl(nan_value), inf_value=fl(inf_value), **kw)
    m, _ = efloat_model(es, nbits, enable_inf, nan_kind, eoffset, rm, overflow, nan_value, inf_value)
    return ctx, m


def mk_ieee(es, nbits, rm='RNE', overflow='OVERFLOW', **kw):
    ctx = fp.IEEEContext(es, nbits, RM[rm], OV[overflow], **kw)
    m, _ = efloat_model(es, nbits, True, refdec.IEEE_754, 0, rm, overflow, kind='efloat')
    m.label = f'IEEEContext({es},{nbits},{rm},{overflow})'
    return ctx, m


def mk_mpfixed(nmin, rm='RNE', enable_nan=False, enable_inf=False, enable_neg_zero=True,
               nan_value=None, inf_value=None, **kw):
    ctx = fp.MPFixedContext(nmin, RM[rm], enable_nan=enable_nan, enable_inf=enable_inf,
                            enable_neg_zero=enable_neg_zero, nan_value=fl(nan_value), inf_value=fl(inf_value), **kw)
    m = Model('mpfixed', p=None, nmin=nmin, rm=rm, has_nan=enable_nan, has_inf=enable_inf,
              has_neg_zero=enable_neg_zero, nan_sub=nan_value, inf_sub=inf_value, inf_resign=False,
              label=f'MPFixedContext({nmin},{rm},nan={enable_nan},inf={enable_inf},nz={enable_neg_zero},nv={nan_value},iv={inf_value})')
    return ctx, m


def mk_mpbfixed(nmin, maxval: Fraction, rm='RNE', overflow='WRAP', neg_maxval: Fraction | None = None,
                enable_nan=False, enable_inf=False, enable_neg_zero=True, nan_value=None, inf_value=None, **kw):
    ctx = fp.MPBFixedContext(nmin, rf(maxval), RM[rm], OV[overflow],
                             neg_maxval=None if neg_maxval is None else RealFloat(s=True, x=rf(-neg_maxval)),
                             enable_nan=enable_nan, enable_inf=enable_inf, enable_neg_zero=enable_neg_zero,
                             nan_value=fl(nan_value), inf_value=fl(inf_value), **kw)
    m = Model('mpbfixed', p=None, nmin=nmin, pos_max=maxval,
              neg_max=-maxval if neg_maxval is None else neg_maxval, rm=rm, overflow=overflow,
              has_nan=enable_nan, has_inf=enable_inf, has_neg_zero=enable_neg_zero,
              nan_sub=nan_value, inf_sub=inf_value, inf_resign=False,
              label=f'MPBFixedContext({nmin},{maxval},{rm},{overflow},neg={neg_maxval},nan={enable_nan},'
                    f'inf={enable_inf},nz={enable_neg_zero},nv={nan_value},iv={inf_value})')
    return ctx, m


def mk_fixed(signed, scale, nbits, rm='RNE', overflow='WRAP', nan_value=None, inf_value=None, **kw):
    ctx = fp.FixedContext(signed, scale, nbits, RM[rm], OV[overflow],
                          nan_value=fl(nan_value), inf_value=fl(inf_value), **kw)
    vals = [refdec.fixed_decode(signed, scale, nbits, b) for b in range(1 << nbits)]
    fin = [v for v in vals if isinstance(v, Fraction)]
    m = Model('fixed', p=None, nmin=scale - 1, pos_max=max(fin + [Fraction(0)]), neg_max=min(fin + [Fraction(0)]),
              rm=rm, overflow=overflow, has_nan=False, has_inf=False, has_neg_zero=False,
              nan_sub=nan_value, inf_sub=inf_value, inf_resign=False,
              label=f'FixedContext({signed},{scale},{nbits},{rm},{overflow},nv={nan_value},iv={inf_value})')
    return ctx, m


def mk_smfixed(scale, nbits, rm='RNE', overflow='WRAP', nan_value=None, inf_value=None, **kw):
    ctx = fp.SMFixedContext(scale, nbits, RM[rm], OV[overflow],
                            nan_value=fl(nan_value), inf_value=fl(inf_value), **kw)
    vals = [refdec.smfixed_decode(scale, nbits, b) for b in range(1 << nbits)]
    fin = [v for v in vals if isinstance(v, Fraction)]
    m = Model('smfixed', p=None, nmin=scale - 1, pos_max=max(fin + [Fraction(0)]), neg_max=min(fin + [Fraction(0)]),
              rm=rm, overflow=overflow, has_nan=False, has_inf=False, has_neg_zero=True,
              nan_sub=nan_value, inf_sub=inf_value, inf_resign=False,
              label=f'SMFixedContext({scale},{nbits},{rm},{overflow},nv={nan_value},iv={inf_value})')
    return ctx, m


def mk_exp(nbits, eoffset=0, rm='RNE', overflow='OVERFLOW', inf_value=None):
    ctx = fp.ExpContext(nbits, eoffset, RM[rm], OV[overflow], inf_value=fl(inf_value))
    vals = [refdec.exp_decode(nbits, eoffset, b) for b in range(1 << nbits)]
    fin = [v for v in vals if isinstance(v, Fraction)]
    m = Model('exp', p=1, nmin=floor_log2(min(fin)), p_emax=floor_log2(max(fin)), rm=rm, overflow=overflow,
              has_nan=True, has_inf=False, has_neg_zero=False, inf_sub=inf_value,
              label=f'ExpContext({nbits},{eoffset},{rm},{overflow},iv={inf_value})')
    return ctx, m


def mk_real():
    return fp.REAL, Model('real', has_nan=True, has_inf=True, label='REAL')


BUILDERS = {
    'mp': mk_mp, 'mps': mk_mps, 'mpb': mk_mpb, 'efloat': mk_efloat, 'ieee': mk_ieee,
    'mpfixed': mk_mpfixed, 'mpbfixed': mk_mpbfixed, 'fixed': mk_fixed, 'smfixed': mk_smfixed,
    'exp': mk_exp, 'real': mk_real,
}


def build(spec):
    """spec = (kind, args tuple, kwargs dict)"""
    kind, args, kw = spec
    return BUILDERS[kind](*args, **kw)


# ---------------------------------------------------------------------------
# operands

def grid_points(m: Model, lo_e: int, hi_e: int):
    """Positive points of the unbounded-exponent grid (p, nmin) with exponent in [lo_e, hi_e)."""
    pts = []
    if m.p is None:
        ulp = pow2(m.nmin + 1)
        k0 = int(pow2(lo_e) / ulp)
        k1 = int(pow2(hi_e) / ulp)
        return [k * ulp for k in range(max(1, k0), k1 + 1)]
    for e in range(lo_e, hi_e):
        n = e - m.p if m.nmin is None else max(m.nmin, e - m.p)
        ulp = pow2(n + 1)
        lo = pow2(e) / ulp
        hi = pow2(e + 1) / ulp
        if hi < 1:
            continue
        k = max(1, int(lo)) if lo.denominator == 1 else int(lo) + 1
        while k < hi:
            pts.append(k * ulp)
            k += 1
    return sorted(set(pts))


def window(m: Model):
    """Exponent window (lo_e, hi_e) worth enumerating for a model."""
    if m.kind == 'exp':
        return m.nmin - 3, m.p_emax + 4
    if m.p is None:
        top = floor_log2(m.pos_max) + 2 if m.pos_max else m.nmin + 5
        if m.neg_max:
            top = max(top, floor_log2(-m.neg_max) + 2)
        return m.nmin - 2, max(top, m.nmin + 3)
    lo = (m.nmin + 1 - 2) if m.nmin is not None else -3
    if m.pos_max:
        hi = floor_log2(m.pos_max) + 3
        if m.neg_max:
            hi = max(hi, floor_log2(-m.neg_max) + 3)
    else:
        hi = lo + 2 + min(m.p, 3) + 3
    return lo, max(hi, lo + 3)


def breakpoint_operands(m: Model, max_points=400):
    """Sorted list of positive rationals: grid points, midpoints, and small perturbations of both,
    plus the same around the maximum values; deterministic."""
    if m.kind == 'real':
        m = Model('mp', p=3)
    lo_e, hi_e = window(m)
    if m.kind == 'exp':
        g = [pow2(e) for e in range(lo_e, hi_e)]
    else:
        g = grid_points(m, lo_e, hi_e)
    if len(g) > max_points:
        # keep the bottom, the top and a thinned middle
        k = max_points // 3
        mid = g[k:-k]
        step = max(1, len(mid) // k)
        g = g[:k] + mid[::step] + g[-k:]
    ops = set()
    prev = Fraction(0)
    for x in g:
        gap = x - prev
        for eps in (gap / 8, gap / 3 / (1 << 40)):
            ops.add(x - eps)
            ops.add(x + eps)
        ops.add(x)
        mid = (x + prev) / 2
        ops.add(mid)
        ops.add(mid - gap / 8)
        ops.add(mid + gap / 8)
        ops.add(mid + gap / 3 / (1 << 40))
        ops.add(mid - gap / 3 / (1 << 40))
        prev = x
    # far beyond the range / far below
    if g:
        ops.add(g[-1] * 1024 + Fraction(1, 3))
        ops.add(g[-1] * (1 << 70))
        ops.add(g[0] / (1 << 70))
        ops.add(g[0] / 3)
    ops.discard(Fraction(0))
    return sorted(o for o in ops if o > 0)


def dyadic(q: Fraction) -> bool:
    d = q.denominator
    return d & (d - 1) == 0


def carriers(q: Fraction):
    """All carrier objects denoting the finite non-zero rational q: list of (name, obj)."""
    out = [('Fraction', Fraction(q))]
    if dyadic(q):
        f = to_float_obj(q)
        out.append(('Float', f))
        out.append(('Float*8', Float(s=f.s, c=f.c << 3, exp=f.exp - 3)))
        out.append(('RealFloat', RealFloat(s=f.s, c=f.c, exp=f.exp)))
        if q.denominator == 1:
            out.append(('int', int(q)))
        try:
            x = float(q)
            if Fraction(x) == q:
                out.append(('float', x))
        except OverflowError:
            pass
    return out


def special_carriers():
    """(name, obj, denotation) for zeros, infinities and NaN in every carrier that has them."""
    return [
        ('Float+0', Float(c=0, exp=0), PZERO), ('Float-0', Float(s=True, c=0, exp=0), NZERO),
        ('Float+0e7', Float(c=0, exp=7), PZERO), ('Float-0e-9', Float(s=True, c=0, exp=-9), NZERO),
        ('RealFloat+0', RealFloat(c=0, exp=0), PZERO), ('RealFloat-0', RealFloat(s=True, c=0, exp=3), NZERO),
        ('int0', 0, PZERO), ('float+0', 0.0, PZERO), ('float-0', -0.0, NZERO), ('Fraction0', Fraction(0), PZERO),
        ('Float+inf', Float(isinf=True), PINF), ('Float-inf', Float(s=True, isinf=True), NINF),
        ('float+inf', float('inf'), PINF), ('float-inf', float('-inf'), NINF),
        ('FloatNaN', Float(isnan=True), NAN), ('Float-NaN', Float(s=True, isnan=True), NAN),
        ('floatNaN', float('nan'), NAN),
    ]
