"""
Tracing interpreter: a subclass of fpy2's BytecodeCompiler / BytecodeInterpreter (nothing in /repo
changes) that records, per AST node of the very FuncDef being run,

  * every value each expression node evaluated to      (`rec.expr_obs[node]`)
  * after every binding statement (Assign, IndexedAssign, and at the top of every `for` iteration)
    a snapshot of the local variables                   (`rec.events`: ('bind', stmt, {name: value}))
  * for every variable read, the statement that last wrote the name at that moment
                                                        (`rec.reads`: (Var node, writer stmt | 'arg'))

Static analyses of fpy2 key their facts by node identity (`by_expr[e]`, `use_to_def[var]`,
`AssignDef.site`), so run-time observations and static facts line up without any name matching.

    rt = TracingInterpreter()
    result = f.with_rt(rt)(*args, ctx=ctx)        # or rt.eval(f, args, ctx)
    rec = rt.recorder(f)                            # Recorder for f.ast
"""

from __future__ import annotations

import ast as pyast

from fpy2.ast.fpyast import Assign, ContextStmt, Expr, ForStmt, FuncDef, IndexedAssign, Stmt, Var
from fpy2.function import Function
from fpy2.interpret.byte import BytecodeCompiler, BytecodeInterpreter
from fpy2.interpret.value import from_value, to_value

MAX_OBS = 64


class Recorder:
    def __init__(self, func: FuncDef):
        self.func = func
        self.nodes: list = []          # index -> AST node (Expr or Stmt)
        self.index: dict = {}          # id(node) -> index
        self.expr_obs: dict = {}       # node index -> list of observed values (capped)
        self.expr_count: dict = {}
        self.events: list = []         # ('bind', stmt index, {name: value})
        self.reads: list = []          # (var node index, writer stmt index | -1 for argument/free)
        self.last_writer: dict = {}    # name -> stmt index
        self.max_events = 5000

    def register(self, node) -> int:
        k = id(node)
        if k not in self.index:
            self.index[k] = len(self.nodes)
            self.nodes.append(node)
        return self.index[k]

    def reset(self):
        self.expr_obs.clear()
        self.expr_count.clear()
        self.events.clear()
        self.reads.clear()
        self.last_writer.clear()

    # -- runtime hooks -------------------------------------------------------
    def on_expr(self, idx, value):
        c = self.expr_count.get(idx, 0)
        self.expr_count[idx] = c + 1
        if c < MAX_OBS:
            self.expr_obs.setdefault(idx, []).append(value)
        node = self.nodes[idx]
        if isinstance(node, Var) and len(self.reads) < self.max_events:
            self.reads.append((idx, self.last_writer.get(str(node.name), -1)))
        return value

    def on_bind(self, idx, names, env):
        for n in names:
            self.last_writer[n] = idx
        if len(self.events) < self.max_events:
            snap = {k: v for k, v in env.items() if not k.startswith('__')}
            self.events.append(('bind', idx, snap))

    # -- convenience ---------------------------------------------------------
    def observations(self):
        """{Expr node: [values]}"""
        return {self.nodes[i]: vs for i, vs in self.expr_obs.items()}


def _target_names(t):
    from fpy2.ast.fpyast import TupleBinding
    from fpy2.utils import NamedId
    if isinstance(t, NamedId):
        return [str(t)]
    if isinstance(t, TupleBinding):
        out = []
        for e in t.elts:
            out += _target_names(e)
        return out
    return []


class TracingCompiler(BytecodeCompiler):
    def __init__(self, func: FuncDef, env, rec: Recorder):
        super().__init__(func, env)
        self.rec = rec

    def _hook_call(self, name, args, attrs):
        return pyast.Call(func=pyast.Name(id=name, ctx=pyast.Load(), **attrs), args=args, keywords=[], **attrs)

    def _visit_expr(self, e: Expr, ctx):
        inner = super()._visit_expr(e, ctx)
        idx = self.rec.register(e)
        attrs = self._location_to_attributes(e.loc)
        return self._hook_call('__vt_expr', [pyast.Constant(value=idx, kind=None, **attrs), inner], attrs)

    def _bind_stmt(self, stmt: Stmt, names):
        idx = self.rec.register(stmt)
        attrs = self._location_to_attributes(stmt.loc)
        call = self._hook_call('__vt_bind', [
            pyast.Constant(value=idx, kind=None, **attrs),
            pyast.Tuple(elts=[pyast.Constant(value=n, kind=None, **attrs) for n in names], ctx=pyast.Load(), **attrs),
            self._hook_call('locals', [], attrs),
        ], attrs)
        return pyast.Expr(value=call, **attrs)

    def _visit_statement(self, stmt: Stmt, ctx):
        out = super()._visit_statement(stmt, ctx)
        attrs = self._location_to_attributes(stmt.loc)
        if isinstance(stmt, Assign):
            hook = self._bind_stmt(stmt, _target_names(stmt.target))
            return pyast.If(test=pyast.Constant(value=True, kind=None, **attrs), body=[out, hook], orelse=[], **attrs)
        if isinstance(stmt, IndexedAssign):
            hook = self._bind_stmt(stmt, [str(stmt.var)])
            return pyast.If(test=pyast.Constant(value=True, kind=None, **attrs), body=[out, hook], orelse=[], **attrs)
        if isinstance(stmt, ForStmt) and isinstance(out, pyast.For):
            hook = self._bind_stmt(stmt, _target_names(stmt.target))
            out.body.insert(0, hook)
            return out
        return out


class TracingInterpreter(BytecodeInterpreter):
    def __init__(self, ctx=None):
        super().__init__(ctx=ctx)
        self.recs: dict = {}

    def recorder(self, f) -> Recorder:
        ast = f.ast if isinstance(f, Function) else f
        return self.recs[id(ast)]

    def eval(self, func: Function, args, ctx=None, *, convert: bool = True):
        if not isinstance(func, Function):
            raise TypeError(f'Expected Function, got `{func}`')
        if func.ast not in self.func_cache:
            rec = Recorder(func.ast)
            compiler = TracingCompiler(func.ast, func.env, rec)
            fn = compiler.compile()
            fn.__globals__['__vt_expr'] = rec.on_expr
            fn.__globals__['__vt_bind'] = rec.on_bind
            fn.__globals__['locals'] = locals
            self.func_cache[func.ast] = fn
            self.recs[id(func.ast)] = rec
        fn = self.func_cache[func.ast]
        ctx = self._func_ctx(func.ast, ctx)
        if convert:
            args = tuple(to_value(arg) for arg in args)
        res = fn(*args, __ctx__=ctx)
        return from_value(res) if convert else res
