"""
C08 failure diagnosis: is a disagreement between f and T(f) caused by *names*?

A failing (program, configuration, input) is re-run on alpha-renamed copies of the program:

    numbered   every user identifier ending in digits (t5, i12, _src7 ...) gets a letters-only name.  Gensym spells a
               refreshed temporary as base+count, so only such names can coincide with a generated one.
    scoped     additionally every comprehension gets targets of its own (alpha-renaming per comprehension), so a
               comprehension variable coincides with nothing outside it.

    everything additionally every other user identifier (variables, parameters, captured globals except K) gets a
               fresh letters-only name, so no user name coincides with a default temporary (t, n, i, j, m, acc, b, _i, _src).

If the disagreement disappears under `numbered`, the root cause is a generated temporary colliding with a user name;
if it only disappears under `scoped`, a rewrite moved a comprehension variable into (or a name under) another scope;
if it only disappears under `everything`, a rewrite used a temporary's default name without refreshing it.
The renaming works on Python's own `ast` of the source text (the generated programs are valid Python syntax) and
keeps function names, `fp`, builtins and the captured factor `K`.
"""

from __future__ import annotations

import ast
import itertools
import re

KEEP = {'fp', 'K', 'range', 'len', 'zip', 'enumerate', 'sum', 'min', 'max', 'abs', 'any', 'all', 'list', 'bool', 'tuple',
        'True', 'False', 'None', 'int', 'float'}


def _letters(k: int) -> str:
    s = ''
    k += 1
    while k:
        k, r = divmod(k - 1, 26)
        s = chr(ord('a') + r) + s
    return s


class _Renamer(ast.NodeTransformer):
    def __init__(self, keep, numbered, scoped, everything=False):
        self.keep = keep
        self.numbered = numbered
        self.scoped = scoped
        self.everything = everything
        self.counter = itertools.count()
        self.global_map = {}        # consistent renaming of digit-suffixed names
        self.scopes = []            # comprehension scopes: list of dicts

    def fresh(self):
        return 'zq' + _letters(next(self.counter)) + 'x'

    def base_name(self, name):
        if name in self.keep:
            return name
        if self.everything or (self.numbered and re.search(r'\d$', name)):
            if name not in self.global_map:
                self.global_map[name] = self.fresh()
            return self.global_map[name]
        return name

    def lookup(self, name):
        for sc in reversed(self.scopes):
            if name in sc:
                return sc[name]
        return self.base_name(name)

    def visit_Name(self, node):
        return ast.copy_location(ast.Name(id=self.lookup(node.id), ctx=node.ctx), node)

    def visit_arg(self, node):
        node.arg = self.base_name(node.arg)
        return node

    def _bind(self, target, scope):
        for n in ast.walk(target):
            if isinstance(n, ast.Name) and n.id != '_':
                scope[n.id] = self.fresh()

    def visit_ListComp(self, node):
        if not self.scoped:
            return self.generic_visit(node)
        scope = {}
        self.scopes.append(scope)
        gens = []
        for g in node.generators:
            # the iterable sees the targets of earlier generators only
            it = self.visit(g.iter)
            self._bind(g.target, scope)
            tgt = self.visit(g.target)
            ifs = [self.visit(c) for c in g.ifs]
            gens.append(ast.comprehension(target=tgt, iter=it, ifs=ifs, is_async=0))
        elt = self.visit(node.elt)
        self.scopes.pop()
        return ast.copy_location(ast.ListComp(elt=elt, generators=gens), node)


def rename_apart(src: str, numbered: bool = True, scoped: bool = False, everything: bool = False) -> str:
    tree = ast.parse(src)
    keep = set(KEEP) | {n.name for n in tree.body if isinstance(n, ast.FunctionDef)}
    r = _Renamer(keep, numbered, scoped, everything)
    tree = r.visit(tree)
    ast.fix_missing_locations(tree)
    return ast.unparse(tree) + '\n'


def diagnose(src: str, still_fails) -> str | None:
    """`still_fails(new_src) -> bool | None` re-runs the failing configuration and input on a renamed program
    (None: could not decide, e.g. the renamed original no longer returns).  Returns a cause tag or None."""
    try:
        plain = rename_apart(src, numbered=False, scoped=False)
        if still_fails(plain) is not True:
            return None             # unparsing alone changed the outcome: do not attribute anything to names
        a = rename_apart(src, numbered=True, scoped=False)
        if still_fails(a) is False:
            return 'name-collision:numbered-name'
        b = rename_apart(src, numbered=True, scoped=True)
        if still_fails(b) is False:
            return 'name-collision:comprehension-scope'
        c = rename_apart(src, numbered=True, scoped=True, everything=True)
        if still_fails(c) is False:
            return 'name-collision:user-name'
    except Exception:       # a diagnosis aid must never turn a failure into a harness error
        return None
    return None
