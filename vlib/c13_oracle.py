"""
C13 soundness relations: what each fpy2 analysis REPORTS about a function must be true of what a
traced run OBSERVED (never the converse).

    facts = Facts(ast)                      # runs every analysis the way its users do (`X.analyze(f.ast)`)
    viol  = check_run(facts, rec, result)   # rec: vlib.c13_trace.Recorder13 after one completed run
    -> list of (bucket, expected, got); counters are added to `stats`

Only completed runs are judged: value_class.py's "soundness assumption" (and array_size's strict
zip / assert reasoning) describe executions in which every operation has a result.
"""

from __future__ import annotations

from fractions import Fraction

from fpy2.analysis import (Alias, ArraySizeInfer, ContextUse, DefineUse, Escape, LiveVars, PartialEval, Purity,
                           TypeInfer, TypeInferError, ValueClass, ValueClassInfer)
from fpy2.analysis.array_size import ListSize, TupleSize, is_size_eq
from fpy2.analysis.call_graph import CallGraphError
from fpy2.analysis.reaching_defs import AssignDef, PhiDef
from fpy2.analysis.syntax_check import FPySyntaxError
from fpy2.ast.fpyast import (Argument, Assign, Call, ContextStmt, Expr, ForStmt, FuncDef, IfStmt, If1Stmt, IndexedAssign,
                             ListComp, ListExpr, ListRef, ListSlice, TupleBinding, TupleExpr, Var, WhileStmt, Zip, Enumerate,
                             IfExpr, Fst, Snd)
from fpy2.number import Context, Float
from fpy2.types import BoolType, ContextType, FunctionType, ListType, RealType, TupleType, VarType
from fpy2.utils import UNINIT, NamedId

from vlib.denote import deep_den

STALE_ROWS = 'size/inner-size-stale-after-row-store'

REJECTS = (TypeInferError, FPySyntaxError, CallGraphError, NotImplementedError)

ANALYSES = [
    ('DefineUse', lambda a: DefineUse.analyze(a)),
    ('TypeInfer', lambda a: TypeInfer.check(a)),
    ('PartialEval', lambda a: PartialEval.apply(a)),
    ('ArraySizeInfer', lambda a: ArraySizeInfer.analyze(a)),
    ('ValueClassInfer', lambda a: ValueClassInfer.analyze(a)),
    ('Alias', lambda a: Alias.analyze(a)),
    # run for crash detection only: the property statement lists no fact of theirs
    ('ContextUse', lambda a: ContextUse.analyze(a)),
    ('Purity', lambda a: Purity.analyze(a)),
    ('LiveVars', lambda a: LiveVars.analyze(a)),
    ('Escape', lambda a: Escape.analyze(a)),
]


class Facts:
    """Results of all analyses on one FuncDef; `status[name]` is 'ok' | 'reject:<Exc>' | 'crash:<Exc>'."""

    def __init__(self, ast: FuncDef, only=None):
        self.ast = ast
        self.res = {}
        self.status = {}
        self.errors = {}
        for name, run in ANALYSES:
            if only is not None and name not in only:
                continue
            try:
                self.res[name] = run(ast)
                self.status[name] = 'ok'
            except REJECTS as e:
                self.status[name] = f'reject:{type(e).__name__}'
                self.errors[name] = f'{type(e).__name__}: {str(e)[:200]}'
            except RecursionError as e:
                self.status[name] = 'reject:RecursionError'
            except Exception as e:   # internal crash of an analysis: visible class, not a violation by itself
                self.status[name] = f'crash:{type(e).__name__}'
                self.errors[name] = f'{type(e).__name__}: {str(e)[:200]}'
        # an analysis that fails with the very error of one of its prerequisites is blocked, not crashing
        firsts = {}
        for name, _ in ANALYSES:
            st = self.status.get(name, '')
            if st.startswith('crash:'):
                msg = self.errors.get(name)
                if msg in firsts:
                    self.status[name] = f'blocked:{firsts[msg]}'
                else:
                    firsts[msg] = name
        du = self.res.get('DefineUse')
        self.du = du
        self.entry_defs = {}
        self.site_defs = {}
        if du is not None:
            for d in du.defs:
                if isinstance(d, AssignDef):
                    if isinstance(d.site, (Argument, FuncDef)):
                        self.entry_defs[str(d.name)] = d
                    self.site_defs[(str(d.name), id(d.site))] = d
        self._reach_cache = {}
        self._row_store = None

    def get(self, name):
        return self.res.get(name)

    def has_row_store(self):
        """Does the function replace a row of a nested list (`xss[i] = row`, `g[k][i] = row`) or hand a nested
        list to a callee?  Then the lengths *inside* a list-of-lists definition can change behind it."""
        if self._row_store is None:
            self._row_store = _find_row_store(self.ast, self.res.get('TypeInfer'))
        return self._row_store

    # -- reaching definitions: AssignDefs reachable from d through phi operands ---------------
    def reach_sites(self, d):
        k = id(d) if not isinstance(d, (AssignDef, PhiDef)) else d
        if k in self._reach_cache:
            return self._reach_cache[k]
        seen = set()
        out = []
        stack = [d]
        while stack:
            x = stack.pop()
            if isinstance(x, AssignDef):
                out.append(x)
            elif isinstance(x, PhiDef):
                if x in seen:
                    continue
                seen.add(x)
                stack.append(self.du.defs[x.lhs])
                stack.append(self.du.defs[x.rhs])
        self._reach_cache[k] = out
        return out

    # -- merge statistics (non-triviality): is some phi strictly weaker than one incoming edge? --
    def merge_stats(self):
        """set of tags 'merge-weaker:<analysis>:<loop|branch>' and 'phi:<loop|branch>'"""
        tags = set()
        du = self.du
        if du is None:
            return tags
        vc = self.res.get('ValueClassInfer')
        sz = self.res.get('ArraySizeInfer')
        pe = self.res.get('PartialEval')
        for d in du.defs:
            if not isinstance(d, PhiDef):
                continue
            kind = 'loop' if d.is_loop else 'branch'
            tags.add(f'phi:{kind}')
            ops = (du.defs[d.lhs], du.defs[d.rhs])
            if vc is not None:
                c = vc.by_def.get(d)
                if isinstance(c, ValueClass):
                    for o in ops:
                        oc = vc.by_def.get(o)
                        if isinstance(oc, ValueClass) and oc != c and (oc & c) == oc:
                            tags.add(f'merge-weaker:value_class:{kind}')
            if sz is not None:
                b = sz.by_def.get(d)
                if isinstance(b, ListSize):
                    for o in ops:
                        ob = sz.by_def.get(o)
                        if isinstance(ob, ListSize) and ob != b:
                            tags.add(f'merge-weaker:size:{kind}')
            if pe is not None:
                if d not in pe.by_def and any(o in pe.by_def for o in ops):
                    tags.add(f'merge-weaker:const:{kind}')
        return tags


# ---------------------------------------------------------------------------
# per-value predicates

def kind_of(v):
    if isinstance(v, bool):
        return 'bool'
    if isinstance(v, (Float, Fraction)):
        return 'real'
    if isinstance(v, Context):
        return 'context'
    if isinstance(v, list):
        return 'list'
    if isinstance(v, tuple):
        return f'tuple{len(v)}'
    return type(v).__name__


def has_shape(v, ty):
    """None if `v` has the shape of `ty`, else a short description of the first mismatch."""
    if v is UNINIT:
        return None          # a slot of `empty(n)` that was not stored to yet holds no value
    if isinstance(ty, VarType) or isinstance(ty, FunctionType):
        return None          # unconstrained
    if isinstance(ty, RealType):
        return None if (isinstance(v, (Float, Fraction)) and not isinstance(v, bool)) else f'real<-{kind_of(v)}'
    if isinstance(ty, BoolType):
        return None if isinstance(v, bool) else f'bool<-{kind_of(v)}'
    if isinstance(ty, ContextType):
        return None if isinstance(v, Context) else f'context<-{kind_of(v)}'
    if isinstance(ty, ListType):
        if not isinstance(v, list):
            return f'list<-{kind_of(v)}'
        for x in v:
            m = has_shape(x, ty.elt)
            if m is not None:
                return 'list[' + m + ']'
        return None
    if isinstance(ty, TupleType):
        if not isinstance(v, tuple):
            return f'tuple<-{kind_of(v)}'
        if len(v) != len(ty.elts):
            return f'tuple{len(ty.elts)}<-tuple{len(v)}'
        for x, t in zip(v, ty.elts):
            m = has_shape(x, t)
            if m is not None:
                return 'tuple[' + m + ']'
        return None
    return None


def classify(v):
    """ValueClass atom of an observed real value."""
    if isinstance(v, Float):
        if v.isnan:
            return ValueClass.NAN
        if v.isinf:
            return ValueClass.INF
        return ValueClass.ZERO if v.c == 0 else ValueClass.FINITE
    if isinstance(v, Fraction):
        return ValueClass.ZERO if v == 0 else ValueClass.FINITE
    return None


def check_size(v, bound, symvals, where='outer', inner_syms=None):
    """Yields (kind, expected, got) mismatches of value v against an ArraySizeBound.  `inner_syms` collects the
    size variables met below the outermost list level."""
    if isinstance(bound, ListSize):
        if not isinstance(v, list):
            return
        n = bound.size
        if isinstance(n, int) and not isinstance(n, bool):
            if len(v) != n:
                yield (f'concrete/{where}', n, len(v))
        elif isinstance(n, NamedId):
            symvals.setdefault(str(n), set()).add(len(v))
            if where == 'inner' and inner_syms is not None:
                inner_syms.add(str(n))
        for x in v:
            yield from check_size(x, bound.elt, symvals, 'inner', inner_syms)
    elif isinstance(bound, TupleSize):
        if isinstance(v, tuple) and len(v) == len(bound.elts):
            for x, b in zip(v, bound.elts):
                yield from check_size(x, b, symvals, where, inner_syms)


def size_sig(v, bound):
    """Nested lengths of v as far as the bound describes them (the thing `is_size_eq` claims two values share)."""
    if isinstance(bound, ListSize) and isinstance(v, list):
        return ('L', len(v), tuple(sorted({size_sig(x, bound.elt) for x in v}, key=repr)))
    if isinstance(bound, TupleSize) and isinstance(v, tuple) and len(v) == len(bound.elts):
        return ('T',) + tuple(size_sig(x, b) for x, b in zip(v, bound.elts))
    return ()


def expr_kind(e):
    return type(e).__name__


def route_of(stmt):
    """Aliasing route of a binding statement (for histograms / buckets)."""
    if isinstance(stmt, ForStmt):
        it = stmt.iterable
        if isinstance(it, Zip):
            return 'iteration-zip'
        if isinstance(it, Enumerate):
            return 'iteration-enumerate'
        return 'iteration'
    if isinstance(stmt, ListComp):
        return 'comprehension-var'
    if isinstance(stmt, IndexedAssign):
        return 'element-store'
    if isinstance(stmt, ContextStmt):
        return 'with-as'
    if isinstance(stmt, Assign):
        e = stmt.expr
        pre = 'tuple-unpack/' if isinstance(stmt.target, TupleBinding) else ''
        if isinstance(e, Var):
            return pre + 'binding'
        if isinstance(e, ListRef):
            return pre + 'indexing'
        if isinstance(e, ListSlice):
            return pre + 'slicing'
        if isinstance(e, ListExpr):
            return pre + 'construction'
        if isinstance(e, TupleExpr):
            return pre + 'tuple-packing'
        if isinstance(e, ListComp):
            return pre + 'comprehension'
        if isinstance(e, IfExpr):
            return pre + 'if-expr'
        if isinstance(e, (Fst, Snd)):
            return pre + 'projection'
        if isinstance(e, Call):
            return pre + 'call'
        return pre + 'assign:' + type(e).__name__
    if isinstance(stmt, (Argument, FuncDef)):
        return 'entry'
    return type(stmt).__name__


# ---------------------------------------------------------------------------

def check_run(facts: Facts, rec, result, stats: dict, rows=True):
    """Judges one completed traced run.  Returns a list of (bucket, expected, got, detail)."""
    out = []

    def add(stat, n=1):
        stats[stat] = stats.get(stat, 0) + n

    ti = facts.get('TypeInfer')
    sz = facts.get('ArraySizeInfer')
    vc = facts.get('ValueClassInfer')
    pe = facts.get('PartialEval')
    du = facts.du
    al = facts.get('Alias')
    nodes = rec.nodes
    symvals = {}
    symseen = {}

    fails = {'type': {}, 'size': {}, 'value_class': {}, 'const': {}}
    inner_syms = set()
    sized = []
    for idx, obs in rec.expr_obs.items():
        e = nodes[idx]
        if not isinstance(e, Expr):
            continue
        # ---- type
        if ti is not None and e in ti.by_expr:
            ty = ti.by_expr[e]
            for v in obs:
                add('facts:type')
                m = has_shape(v, ty)
                if m is not None:
                    fails['type'][e] = (m, ty.format(), kind_of(v))
                    break
        # ---- size
        if sz is not None and sz.by_expr.get(e) is not None:
            b = sz.by_expr[e]
            for v in obs:
                add('facts:size')
                local = {}
                bad = None
                for kind, exp, got in check_size(v, b, local, 'outer', inner_syms):
                    bad = (kind, exp, got)
                    break
                for k, sset in local.items():
                    if len(sset) > 1 and bad is None:
                        bad = ('symbolic-unequal-within-value', k, sorted(sset))
                    symvals.setdefault(k, set()).update(sset)
                    symseen.setdefault(k, []).append((e, sorted(sset)))
                if bad is not None and e not in fails['size']:
                    fails['size'][e] = bad
            if len(sized) < 40 and isinstance(b, (ListSize, TupleSize)):
                sized.append((e, b, {size_sig(v, b) for v in obs}))
        # ---- value class
        if vc is not None and isinstance(vc.by_expr.get(e), ValueClass):
            fact = vc.by_expr[e]
            for v in obs:
                c = classify(v)
                if c is None:
                    continue
                add('facts:value_class')
                if fact != ValueClass.TOP:
                    add('facts:value_class-nontop')
                if not (c & fact):
                    fails['value_class'][e] = (c, str(fact), c.name)
                    break
        # ---- constant
        if pe is not None and e in pe.by_expr:
            cst = pe.by_expr[e]
            dc = deep_den(cst)
            for v in obs:
                add('facts:const')
                if deep_den(v) != dc:
                    fails['const'][e] = (cst, repr(dc)[:120], repr(deep_den(v))[:120], v)
                    break

    # root causes sit at the innermost failing expressions: an expression whose sub-expression already
    # contradicts its fact is a consequence
    for an, fl in fails.items():
        if not fl:
            continue
        memo = {}

        def tainted(x):
            if x in memo:
                return memo[x]
            memo[x] = False
            r = any((c in fl) or tainted(c) for c in children(x))
            memo[x] = r
            return r
        def from_failing_def(x):
            # a variable read whose (possible) defining assignment already evaluated a failing expression
            if not isinstance(x, Var) or du is None or x not in du.use_to_def:
                return False
            for a in facts.reach_sites(du.use_to_def[x]):
                if isinstance(a.site, Assign):
                    srcs = [a.site.expr]
                elif isinstance(a.site, ForStmt):
                    srcs = [a.site.iterable]
                elif isinstance(a.site, ListComp):
                    srcs = list(a.site.iterables)
                else:
                    continue
                if any(y in fl or tainted(y) for y in srcs):
                    return True
            return False

        for e, info in fl.items():
            if tainted(e) or from_failing_def(e):
                add(f'consequent-failures:{an}')
                continue
            bucket = classify_failure(facts, an, e, info)
            out.append((bucket, info[1], info[2], e.format()))

    # ---- size: one size variable, one length (size variables are minted for parameters / captured
    #      values only, whose lengths are fixed for the whole call)
    for k, s in symvals.items():
        add('facts:size-symbolic')
        if len(s) > 1:
            exprs = sorted({f'{x.format()}:{l}' for x, l in symseen[k]})[:6]
            if k in inner_syms and facts.has_row_store():
                # a row length that went stale when a row was replaced through an alias (one root cause with
                # the concrete case)
                out.append((STALE_ROWS, f'one length for size variable {k}', sorted(s), exprs))
                continue
            cause = _symbolic_culprits(facts, symseen[k])
            if cause is None:
                cause = 'zip-or-assert-not-on-every-path' if _has_constraint_source(facts.ast) else \
                    '+'.join(sorted({expr_kind(x) for x, _ in symseen[k]}))
            out.append((f'size/symbolic-unequal/{cause}', f'one length for size variable {k}', sorted(s), exprs))

    # ---- size: two bounds the published predicate `is_size_eq` calls equal describe values of equal nested lengths
    #      (only judged on runs with no other size failure, so a stale bound is reported once, under its own bucket)
    if not fails['size'] and all(len(x) <= 1 for x in symvals.values()):
        for i in range(len(sized)):
            for j in range(i + 1, len(sized)):
                (e1, b1, s1), (e2, b2, s2) = sized[i], sized[j]
                if is_size_eq(b1, b2):
                    add('facts:size-eq-pair')
                    if len(s1 | s2) > 1:
                        out.append((f'size/is_size_eq-but-shapes-differ/{expr_kind(e1)}+{expr_kind(e2)}', 'equal nested lengths',
                                    [repr(x)[:80] for x in sorted(s1 | s2, key=repr)][:4], f'{e1.format()} ~ {e2.format()}'))
                        break
            else:
                continue
            break

    # ---- result
    if ti is not None:
        add('facts:type')
        m = has_shape(result, ti.return_type)
        if m is not None:
            out.append((f'type/return/{m}', ti.return_type.format(), kind_of(result), 'return'))
    if sz is not None and sz.ret_size is not None:
        add('facts:size')
        for kind, exp, got in check_size(result, sz.ret_size, {}):
            if kind == 'concrete/inner' and facts.has_row_store():
                out.append((STALE_ROWS, exp, got, 'return'))
            else:
                out.append((f'size/{kind}/return', exp, got, 'return'))
            break

    # ---- reaching definitions
    if du is not None:
        for vidx, widx in rec.reads:
            var = nodes[vidx]
            d = du.use_to_def.get(var)
            if d is None:
                add('reach:no-use-entry')
                continue
            add('facts:reach')
            allowed = facts.reach_sites(d)
            if isinstance(d, PhiDef):
                add('facts:reach-through-phi')
            if widx < 0:
                ok = any(isinstance(a.site, (Argument, FuncDef)) for a in allowed)
                wk = 'entry'
            else:
                w = nodes[widx]
                ok = any(a.site is w for a in allowed)
                wk = type(w).__name__
            if not ok:
                dk = ('loop-phi' if d.is_loop else 'branch-phi') if isinstance(d, PhiDef) else 'direct'
                sk = type(d.site).__name__
                # a loop variable that rebinds a name is one root cause however the use resolves
                bucket = 'reach/unlisted-writer:ForStmt' if wk == 'ForStmt' else f'reach/unlisted-writer:{wk}/{dk}@{sk}'
                out.append((bucket,
                            sorted({type(a.site).__name__ for a in allowed}),
                            wk if widx < 0 else nodes[widx].format().splitlines()[0][:60], var.format()))

    # every other analysis is built on def-use: where a read saw a writer that def-use does not list, what
    # they report about that function is a consequence
    if any(b.startswith('reach/') for b, *_ in out):
        add('consequent-failures:after-reach', sum(1 for b, *_ in out if not b.startswith('reach/')))
        out = [o for o in out if o[0].startswith('reach/')]

    # ---- alias
    if al is not None and du is not None:
        n_before = None
        for sidx, names, places, writers in rec.binds:
            if n_before is not None and len(out) > n_before:
                break           # later alias violations of the same run are consequences of the first
            n_before = len(out)
            groups = {}
            for name, path, oid in places:
                groups.setdefault(oid, set()).add((name, path))
            stmt = nodes[sidx]
            for oid, pl in groups.items():
                if len(pl) < 2:
                    continue
                if oid in rec.call_ids:
                    add('alias:out-of-scope-via-call')
                    continue
                pl = sorted(pl, key=lambda p: (p[0], tuple(-1 if k is None else k for k in p[1])))
                for i in range(len(pl)):
                    for j in range(i + 1, len(pl)):
                        (na, pa), (nb, pb) = pl[i], pl[j]
                        if not rows and (pa or pb):
                            continue
                        # only pairs the statement just executed is involved in are new at this point
                        if na not in names and nb not in names and not isinstance(stmt, IndexedAssign):
                            continue
                        da = _current_def(facts, na, writers, nodes)
                        db = _current_def(facts, nb, writers, nodes)
                        if da is None or db is None:
                            add('alias:no-def-for-name')
                            continue
                        level = 'names' if not pa and not pb else ('rows' if all(k is None for k in pa + pb) else 'fields')
                        route = route_of(stmt)
                        add(f'facts:alias')
                        add(f'alias-pair:{route}:{level}')
                        if not pa and not pb:
                            ok = al.may_alias(da, db)
                        else:
                            ra = _region(al, da, pa)
                            rb = _region(al, db, pb)
                            ok = ra is not None and rb is not None and ra is rb
                        if not ok:
                            out.append((f'alias/{route}/{level}', 'may_alias',
                                        f'{na}{_p(pa)} and {nb}{_p(pb)} are the same list object; regions differ',
                                        stmt.format().splitlines()[0][:80]))
    return out


def _p(path):
    return ''.join('[*]' if k is None else f'.{k}' for k in path)


def _current_def(facts, name, writers, nodes):
    w = writers.get(name)
    if w is None or w < 0:
        return facts.entry_defs.get(name)
    return facts.site_defs.get((name, id(nodes[w])))


def _region(al, d, path):
    r = al.region_of(d, 0)
    for k in path:
        if r is None:
            return None
        r = al.region_at(r, 1) if k is None else al.region_field(r, k)
    return r


# ---------------------------------------------------------------------------
# root-cause classification of a failing expression

def children(e):
    out = []
    for klass in type(e).__mro__:
        for slot in getattr(klass, '__slots__', ()):
            if slot == '_loc':
                continue
            _collect(getattr(e, slot, None), out)
    return out


def _collect(v, out):
    if isinstance(v, Expr):
        out.append(v)
    elif isinstance(v, (list, tuple)):
        for x in v:
            _collect(x, out)


def _has_list(v):
    if isinstance(v, list):
        return True
    if isinstance(v, tuple):
        return any(_has_list(x) for x in v)
    return False


def _shape_differs(a, b):
    """A store cannot change the length of the list (or the arity/fields' lengths of the tuple) a name is
    bound to -- only what its elements hold; a re-definition can."""
    if isinstance(a, tuple) and isinstance(b, tuple) and len(a) == len(b):
        return any(_shape_differs(x, y) for x, y in zip(a, b))
    if isinstance(a, list) and isinstance(b, list):
        return len(a) != len(b)
    return isinstance(a, (list, tuple)) or isinstance(b, (list, tuple))


def _within(root, e):
    return root is e or any(_within(c, e) for c in children(root))


def _def_kind(d):
    if isinstance(d, PhiDef):
        return 'loop-header-join' if d.is_loop else 'branch-join'
    return 'def@' + route_of(d.site)


def classify_failure(facts, an, e, info):
    du = facts.du
    ek = expr_kind(e)
    d = du.use_to_def.get(e) if (du is not None and isinstance(e, Var)) else None
    if an == 'type':
        if d is not None:
            return f'type/var:{_def_kind(d)}/{info[0]}'
        return f'type/{ek}/{info[0]}'
    if an == 'size':
        kind = info[0]
        if kind in ('concrete/inner', 'symbolic-unequal-within-value') and facts.has_row_store():
            return STALE_ROWS
        if d is not None:
            if isinstance(d, AssignDef) and kind == 'concrete/inner' and not isinstance(d.site, (Argument, FuncDef)):
                return STALE_ROWS
            return f'size/{_def_kind(d)}/{kind}'
        return f'size/{ek}/{kind}'
    if an == 'value_class':
        vc = facts.get('ValueClassInfer')
        c = info[0]
        if d is not None:
            dc = vc.by_def.get(d)
            if isinstance(dc, ValueClass) and (c & dc):
                return 'value_class/branch-refinement-excludes-observed'
            return f'value_class/{_def_kind(d)}'
        return f'value_class/transfer:{ek}@{_ctx_tag(vc, e)}'
    if an == 'const':
        if d is not None:
            if isinstance(d, PhiDef) and {info[1], info[2]} == {repr('+0'), repr('-0')}:
                return 'const/merge-equates-signed-zeros'
            if _has_list(info[0]) and not _shape_differs(info[0], info[3]):
                return 'const/list-mutated-after-definition'
            if isinstance(d, PhiDef):
                if d.is_loop and isinstance(d.site, WhileStmt) and _within(d.site.cond, e):
                    return 'const/while-condition-stale'
                return 'const/redefined-in-loop' if d.is_loop else 'const/branch-merge'
            return f'const/{_def_kind(d)}'
        return f'const/fold:{ek}'
    return f'{an}/{ek}'


def _ctx_tag(vc, e):
    from fpy2.analysis.value_class import representable_classes
    from fpy2.number import REAL
    scope = vc.ctx_use.use_to_scope.get(e)
    if scope is None:
        return 'no-scope'
    if not isinstance(scope.ctx, Context):
        return 'symbolic-ctx'
    if scope.ctx is REAL:
        return 'REAL'
    return 'ctx-with-all-classes' if representable_classes(scope.ctx) == ValueClass.TOP else 'ctx-lacking-nan-or-inf'


def _symbolic_culprits(facts, seen):
    """A size variable stands for the length of a parameter.  If every read of a parameter carrying the variable
    saw one length, the expressions that carried the variable with another length are the culprits: name the
    innermost ones.  None if the parameters themselves disagree (then the variable was wrongly shared)."""
    du = facts.du
    ref = set()
    for e, ls in seen:
        if isinstance(e, Var) and du is not None:
            d = du.use_to_def.get(e)
            if isinstance(d, AssignDef) and isinstance(d.site, (Argument, FuncDef)):
                ref.update(ls)
    if len(ref) != 1:
        return None
    bad = {e for e, ls in seen if set(ls) != ref}
    if not bad:
        return None

    def tainted(x):
        return any((c in bad) or tainted(c) for c in children(x))

    def from_bad_def(x):
        if not isinstance(x, Var) or du is None or x not in du.use_to_def:
            return False
        for a in facts.reach_sites(du.use_to_def[x]):
            srcs = [a.site.expr] if isinstance(a.site, Assign) else [a.site.iterable] if isinstance(a.site, ForStmt) else []
            if any(y in bad or tainted(y) for y in srcs):
                return True
        return False
    leaves = sorted({expr_kind(e) for e in bad if not tainted(e) and not from_bad_def(e)})
    return '+'.join(leaves) if leaves else None


def _has_constraint_source(ast):
    """Does the function contain what array_size turns into a global size equality: a strict zip or an assert?"""
    from fpy2.ast.fpyast import AssertStmt
    from fpy2.ast.visitor import DefaultVisitor

    class _Has(DefaultVisitor):
        found = False

        def _visit_statement(self, stmt, ctx):
            if isinstance(stmt, AssertStmt):
                self.found = True
            return super()._visit_statement(stmt, ctx)

        def _visit_expr(self, e, ctx):
            if isinstance(e, Zip):
                self.found = True
            return super()._visit_expr(e, ctx)

    h = _Has()
    h._visit_function(ast, None)
    return h.found


def _ty_holds_list(ty):
    if isinstance(ty, ListType):
        return True
    if isinstance(ty, TupleType):
        return any(_ty_holds_list(t) for t in ty.elts)
    return False


def _ty_holds_rows(ty):
    if isinstance(ty, ListType):
        return _ty_holds_list(ty.elt)
    if isinstance(ty, TupleType):
        return any(_ty_holds_rows(t) for t in ty.elts)
    return False


def _find_row_store(ast, ti):
    from fpy2.ast.visitor import DefaultVisitor
    from fpy2.function import Function
    if ti is None:
        return False

    class _Find(DefaultVisitor):
        found = False

        def _visit_indexed_assign(self, stmt, ctx):
            if _ty_holds_list(ti.by_expr.get(stmt.expr)):
                self.found = True
            super()._visit_indexed_assign(stmt, ctx)

        def _visit_call(self, e, ctx):
            if isinstance(e.fn, Function) and any(_ty_holds_rows(ti.by_expr.get(a)) for a in e.args):
                self.found = True
            super()._visit_call(e, ctx)

    f = _Find()
    f._visit_function(ast, None)
    return f.found
