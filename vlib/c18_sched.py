"""
Harness-owned deterministic thread scheduler (C18, sub-check (c)).

N worker threads each run a list of tasks (zero-argument callables).  At any moment exactly one
thread -- the baton holder -- executes task code; every other thread is parked on a
`threading.Condition`.  A per-thread `sys.settrace` hook counts *line events*; when the running
thread has used up its quantum the hook hands the baton to the thread named by the next schedule
entry and parks.  A schedule is a list of quanta

    (thread_index, kind, count)      kind 'n': `count` line events of any traced frame
                                     kind 'h': `count` line events of *hot* frames only

(hot = code of fpy2/number/gmputils.py, fpy2/interpret/byte.py, fpy2/interpret/interpreter.py and
generated FPy modules), used cyclically until every thread has finished.  Entries naming a finished
thread are skipped.  The interleaving is therefore a pure function of (tasks, schedule): it is
replayable, and it can place a switch on any Python line, including the body of
`gmputils._mpfr_call_with_prec` (i.e. between gmpy2 context `__enter__` and `__exit__`) and the
stash / REAL / set / restore lines the bytecode compiler emits for a `with` block.

Limits: only Python-line-granular interleavings; a C-extension call is atomic to the scheduler.

A thread that does not get the baton back within `stall_s` seconds declares the run stalled: the
scheduler then lets every thread run free so that all threads finish and are joined, and
`run()` raises `SchedulerStall` (the caller reports "inconclusive", never a violation).
"""

from __future__ import annotations

import sys
import threading
import time

HOT_SUFFIXES = ('fpy2/number/gmputils.py', 'fpy2/interpret/byte.py', 'fpy2/interpret/interpreter.py')
ROUNDED_FILES = ('fpy2/ops.py',)


class SchedulerStall(Exception):
    pass


def is_fpy_file(fname: str) -> bool:
    # compiled FPy functions carry the (abspath'd) synthetic file name of vlib.load modules
    return '<_vt_mod' in fname or '<c18' in fname


def is_hot_file(fname: str) -> bool:
    return fname.endswith(HOT_SUFFIXES) or is_fpy_file(fname)


class Scheduler:
    def __init__(self, task_lists, schedule, stall_s=20.0, join_s=60.0):
        """task_lists: list (one per thread) of lists of callables; schedule: list of (thread, kind, count)."""
        self.task_lists = task_lists
        self.n = len(task_lists)
        self.schedule = [(int(t) % self.n, k, max(1, int(c))) for t, k, c in schedule] or [(0, 'n', 1 << 30)]
        self.stall_s = stall_s
        self.join_s = join_s
        self.cond = threading.Condition()
        self.turn = None
        self.pos = -1                 # index into the (cyclic) schedule of the quantum in force
        self.kind = 'n'
        self.remaining = 0
        self.alive = [True] * self.n
        self.free = False             # stalled: everybody runs free
        self.stalled = False
        self.results = [[None] * len(tl) for tl in task_lists]
        # statistics
        self.switches = 0
        self.switches_in_rounded = 0      # pre-empted thread was inside an fpy2.ops call
        self.switches_in_mpfr_ctx = 0     # pre-empted thread was inside gmputils._mpfr_call_with_prec
        self.switches_in_with = 0         # pre-empted thread was executing a compiled FPy function (incl. `with` stash/restore)
        self.switches_in_eval = 0         # pre-empted thread was inside BytecodeInterpreter.eval / compiler
        self.line_events = 0
        self._hot_cache = {}

    # -- schedule ------------------------------------------------------------
    def _advance(self):
        """Moves to the next schedule entry naming a live thread; returns that thread (or None when nobody is alive).
        Caller holds self.cond."""
        if not any(self.alive):
            self.turn = None
            return None
        L = len(self.schedule)
        for _ in range(L):
            self.pos = (self.pos + 1) % L
            t, k, c = self.schedule[self.pos]
            if self.alive[t]:
                self.turn, self.kind, self.remaining = t, k, c
                return t
        # the schedule names no live thread: lowest live index runs to completion
        t = self.alive.index(True)
        self.turn, self.kind, self.remaining = t, 'n', 1 << 60
        return t

    def _wait_turn(self, me):
        """Caller holds self.cond."""
        while self.turn != me and not self.free:
            if not self.cond.wait(timeout=self.stall_s):
                if self.turn != me and not self.free:
                    self.stalled = True
                    self.free = True
                    self.cond.notify_all()

    def _classify(self, frame):
        in_ops = in_mpfr = in_eval = False
        top_fpy = is_fpy_file(frame.f_code.co_filename)
        f = frame
        depth = 0
        while f is not None and depth < 40:
            co = f.f_code
            fn = co.co_filename
            if fn.endswith(ROUNDED_FILES):
                in_ops = True
            if co.co_name == '_mpfr_call_with_prec':
                in_mpfr = True
            if fn.endswith('fpy2/interpret/byte.py') and co.co_name in ('eval', 'compile', '_visit_function'):
                in_eval = True
            f = f.f_back
            depth += 1
        if in_ops:
            self.switches_in_rounded += 1
        if in_mpfr:
            self.switches_in_mpfr_ctx += 1
        if top_fpy:
            self.switches_in_with += 1
        if in_eval:
            self.switches_in_eval += 1

    def _tick(self, me, frame):
        if self.free:
            return
        self.line_events += 1
        if self.kind == 'h':
            co = frame.f_code
            hot = self._hot_cache.get(co)
            if hot is None:
                hot = self._hot_cache[co] = is_hot_file(co.co_filename)
            if not hot:
                return
        self.remaining -= 1
        if self.remaining > 0:
            return
        with self.cond:
            nxt = self._advance()
            if nxt == me or nxt is None:
                return
            self.switches += 1
            self._classify(frame)
            self.cond.notify_all()
            self._wait_turn(me)

    # -- threads -------------------------------------------------------------
    def _body(self, me):
        def local(frame, event, arg):
            if event == 'line':
                self._tick(me, frame)
            return local

        def tracer(frame, event, arg):
            if self.free:
                return None
            return local

        with self.cond:
            self._wait_turn(me)
        try:
            for i, task in enumerate(self.task_lists[me]):
                sys.settrace(tracer)
                try:
                    out = ('ok', task())
                except BaseException as e:      # recorded as the task's outcome; compared with the sequential outcome
                    out = ('raise', type(e).__name__, str(e)[:200])
                finally:
                    sys.settrace(None)
                self.results[me][i] = out
        finally:
            sys.settrace(None)
            with self.cond:
                self.alive[me] = False
                if self.turn == me or self.turn is None:
                    self._advance()
                self.cond.notify_all()

    def run(self):
        threads = [threading.Thread(target=self._body, args=(i,), name=f'c18-w{i}', daemon=True) for i in range(self.n)]
        with self.cond:
            self._advance()
        for t in threads:
            t.start()
        _join_all(threads, self.join_s)
        if any(t.is_alive() for t in threads):
            # let them run free and try once more; still alive => give up (daemon threads die with the worker)
            with self.cond:
                self.free = True
                self.stalled = True
                self.cond.notify_all()
            _join_all(threads, self.join_s / 2)
            raise SchedulerStall('threads did not finish')
        if self.stalled:
            raise SchedulerStall('a thread waited for the baton longer than the stall limit')
        return self.results

    def stats(self):
        return {'switches': self.switches, 'in_rounded': self.switches_in_rounded, 'in_mpfr_ctx': self.switches_in_mpfr_ctx,
                'in_fpy_code': self.switches_in_with, 'in_eval': self.switches_in_eval, 'line_events': self.line_events}


def _join_all(threads, budget_s):
    """Joins with ONE overall deadline (a watchdog, never an oracle)."""
    deadline = time.monotonic() + budget_s
    for t in threads:
        t.join(max(0.0, deadline - time.monotonic()))


def run_free(task_lists, switch_interval=1e-6, join_s=120.0):
    """Free-running stress layer: every thread runs its tasks with a tiny GIL switch interval."""
    results = [[None] * len(tl) for tl in task_lists]
    start = threading.Barrier(len(task_lists))

    def body(me):
        try:
            start.wait(timeout=30)
        except threading.BrokenBarrierError:
            pass
        for i, task in enumerate(task_lists[me]):
            try:
                results[me][i] = ('ok', task())
            except BaseException as e:
                results[me][i] = ('raise', type(e).__name__, str(e)[:200])

    old = sys.getswitchinterval()
    sys.setswitchinterval(switch_interval)
    try:
        threads = [threading.Thread(target=body, args=(i,), daemon=True) for i in range(len(task_lists))]
        for t in threads:
            t.start()
        _join_all(threads, join_s)
        if any(t.is_alive() for t in threads):
            raise SchedulerStall('free-running threads did not finish')
    finally:
        sys.setswitchinterval(old)
    return results
