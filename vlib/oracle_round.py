"""
Independent rounding oracle.

Written from the *definition* of each rounding mode over exact rationals; shares no code
with fpy2.number.  `round_real` rounds a non-zero rational onto the grid given by (p, n):
numbers  m * 2^(n*+1)  with n* = max(n, floor(log2|q|) - p)  (floating: p digits; fixed:
no digit below position n+1).

`Model` mirrors a rounding context from its *public constructor parameters*; `expect`
returns the set of permitted results plus required flags or the permitted exception.
"""

from __future__ import annotations

from dataclasses import dataclass, field, replace
from fractions import Fraction

from .denote import NAN, NINF, NZERO, PINF, PZERO, is_finite, num, pow2, sign_of

MODES = ('RNE', 'RNA', 'RTP', 'RTN', 'RTZ', 'RAZ', 'RTO', 'RTE')


def floor_log2(a: Fraction) -> int:
    """floor(log2(a)) for a > 0, exactly."""
    assert a > 0
    n, d = a.numerator, a.denominator
    e = n.bit_length() - d.bit_length()
    # 2^e <= a < 2^(e+1) up to one off
    if pow2(e) > a:
        e -= 1
    elif pow2(e + 1) <= a:
        e += 1
    assert pow2(e) <= a < pow2(e + 1)
    return e


def grid_n(a: Fraction, p: int | None, n: int | None) -> int:
    """Position of the first digit that cannot be kept when rounding |q| = a."""
    if p is None:
        assert n is not None
        return n
    e = floor_log2(a)
    return e - p if n is None else max(n, e - p)


def round_up_decision(mode: str, neg: bool, k: int, rem: Fraction) -> bool:
    """Given lower neighbour index k (in ulps, by magnitude) and 0 < rem < 1 the fractional
    position toward the upper (away-from-zero) neighbour: go away from zero?"""
    half = Fraction(1, 2)
    if mode == 'RNE':
        return rem > half or (rem == half and k % 2 == 1)
    if mode == 'RNA':
        return rem >= half
    if mode == 'RTP':
        return not neg
    if mode == 'RTN':
        return neg
    if mode == 'RTZ':
        return False
    if mode == 'RAZ':
        return True
    if mode == 'RTO':
        return k % 2 == 0
    if mode == 'RTE':
        return k % 2 == 1
    raise ValueError(mode)


def round_real(q: Fraction, p: int | None, n: int | None, mode: str):
    """Rounds q != 0.  Returns (result Fraction possibly 0, negative?, inexact)."""
    assert q != 0
    neg = q < 0
    a = -q if neg else q
    ns = grid_n(a, p, n)
    ulp = pow2(ns + 1)
    t = a / ulp
    k = t.numerator // t.denominator
    rem = t - k
    if rem == 0:
        return q, neg, False
    if round_up_decision(mode, neg, k, rem):
        k += 1
    r = k * ulp
    return (-r if neg else r), neg, True


def neighbours(q: Fraction, p: int | None, n: int | None):
    """(lo, hi) by magnitude: the two grid points around |q| (equal when representable)."""
    a = abs(q)
    ns = grid_n(a, p, n)
    ulp = pow2(ns + 1)
    t = a / ulp
    k = t.numerator // t.denominator
    if t == k:
        return k * ulp, k * ulp
    return k * ulp, (k + 1) * ulp


def on_grid(q: Fraction, p: int | None, n: int | None) -> bool:
    if q == 0:
        return True
    lo, hi = neighbours(q, p, n)
    return lo == hi


# ---------------------------------------------------------------------------
# context mirror

@dataclass
class Model:
    kind: str
    p: int | None = None
    nmin: int | None = None
    pos_max: Fraction | None = None       # largest finite value (>= 0); None = unbounded
    neg_max: Fraction | None = None       # most negative finite value (<= 0); None = unbounded
    rm: str = 'RNE'
    overflow: str | None = None           # 'OVERFLOW' | 'SATURATE' | 'WRAP' | 'ASSERT' | None
    has_nan: bool = True
    has_inf: bool = True
    has_neg_zero: bool = True
    nan_sub: object = None                # denotation substituted for NaN when not has_nan (None => raise)
    inf_sub: object = None                # denotation substituted for inf when not has_inf (None => raise)
    inf_resign: bool = True               # substitute takes the operand's sign (float families)
    # EFloat only
    efloat_nan_default: object = None     # 'inf' | 'max': what NaN becomes when no NaN and no nan_value
    efloat_inf_default: object = None     # 'nan' | 'max'
    nan_resign: bool = False
    p_emax: int | None = None             # exp kind: largest exponent (nmin holds the smallest)
    label: str = ''

    def bounded(self):
        return self.pos_max is not None


@dataclass
class Outcome:
    values: set = field(default_factory=set)      # permitted denotations
    raises: set = field(default_factory=set)      # permitted exception type names
    inexact: object = None                        # required flag value or None (not checked)
    overflow: object = None
    why: str = ''


def resign(d, neg: bool):
    """Denotation d with its sign replaced."""
    if d == NAN:
        return NAN
    if d in (PINF, NINF):
        return NINF if neg else PINF
    if d in (PZERO, NZERO):
        return NZERO if neg else PZERO
    a = abs(d)
    return -a if neg else a


def member(m: Model, d) -> bool:
    """Is denotation d a member of the format mirrored by m?"""
    if d == NAN:
        return m.has_nan
    if d in (PINF, NINF):
        return m.has_inf
    if d == PZERO:
        return True if m.kind != 'exp' else False
    if d == NZERO:
        return m.has_neg_zero if m.kind != 'exp' else False
    if m.kind == 'real':
        return True
    if m.kind == 'exp':
        if d <= 0:
            return False
        e = floor_log2(d)
        return d == pow2(e) and m.nmin <= e <= m.p_emax
    if not on_grid(d, m.p, m.nmin):
        return False
    if m.pos_max is not None and d > 0 and d > m.pos_max:
        return False
    if m.neg_max is not None and d < 0 and d < m.neg_max:
        return False
    return True


def _zero(m: Model, neg: bool):
    return NZERO if (neg and m.has_neg_zero) else PZERO


def _special(m: Model, d) -> Outcome:
    """Outcome for a NaN / infinite operand."""
    o = Outcome(inexact=None, overflow=None)
    if d == NAN:
        if m.has_nan:
            o.values = {NAN}
        elif m.nan_sub is not None:
            o.values = {m.nan_sub}
        elif m.efloat_nan_default == 'inf':
            o.values = {PINF, NINF}
        elif m.efloat_nan_default == 'max':
            o.values = {m.pos_max if m.pos_max != 0 else PZERO, m.neg_max if m.neg_max != 0 else PZERO}
        else:
            o.raises = {'ValueError'}
        o.why = 'nan operand'
        return o
    neg = d == NINF
    if m.has_inf:
        o.values = {d}
    elif m.inf_sub is not None:
        o.values = {resign(m.inf_sub, neg)} if m.inf_resign else {m.inf_sub}
    elif m.efloat_inf_default == 'nan':
        o.values = {NAN}
    elif m.efloat_inf_default == 'max':
        o.values = {_maxval(m, neg)}
    else:
        o.raises = {'ValueError'}
    o.why = 'inf operand'
    if not m.has_neg_zero:
        o.values = {PZERO if v == NZERO else v for v in o.values}
    return o


def _maxval(m: Model, neg: bool):
    v = m.neg_max if neg else m.pos_max
    if v == 0:
        return _zero(m, neg) if m.kind == 'efloat' else PZERO
    return v


def _overflow_outcome(m: Model, q: Fraction, r: Fraction, neg: bool, exact: bool) -> Outcome:
    """q (operand) rounded with unbounded exponent to r, which is out of range."""
    if exact:
        return Outcome(raises={'ValueError'}, why='exact overflow')
    o = Outcome(inexact=True, overflow=True, why='overflow')
    mv = _maxval(m, neg)
    if m.overflow == 'SATURATE':
        o.values = {mv}
    elif m.overflow == 'ASSERT':
        o = Outcome(raises={'OverflowError'}, why='overflow assert')
    elif m.overflow == 'WRAP':
        # value congruent modulo the ordinal span
        ulp = pow2(m.nmin + 1)
        lo = m.neg_max / ulp
        hi = m.pos_max / ulp
        assert lo.denominator == 1 and hi.denominator == 1
        span = int(hi) - int(lo) + 1
        k = r / ulp
        assert k.denominator == 1
        w = (int(k) - int(lo)) % span + int(lo)
        v = w * ulp
        o.values = {v if v != 0 else PZERO}
    elif m.overflow == 'OVERFLOW':
        # infinity (or its substitute) / largest value, by direction of the mode
        toward_inf = {
            'RNE': True, 'RNA': True, 'RAZ': True, 'RTZ': False,
            'RTP': not neg, 'RTN': neg,
        }.get(m.rm)
        infd = NINF if neg else PINF
        sp = _special(m, infd)
        if m.kind == 'efloat' and not m.has_inf and m.inf_sub is not None:
            sp.values = {resign(m.inf_sub, neg)}
        if not m.has_neg_zero:
            sp.values = {PZERO if v == NZERO else v for v in sp.values}
        if toward_inf is None:
            # RTO / RTE: the statement leaves the choice open: either is accepted
            if sp.raises:
                o.values = {mv}
                o.raises = set(sp.raises)
            else:
                o.values = set(sp.values) | {mv}
        elif toward_inf:
            if sp.raises:
                return Outcome(raises=set(sp.raises), why='overflow to unrepresentable inf')
            o.values = set(sp.values)
        else:
            o.values = {mv}
    else:
        raise ValueError(m.overflow)
    return o


def expect(m: Model, d, n: int | None = None, exact: bool = False) -> Outcome:
    """Permitted outcome of rounding denotation d under m (optionally at position n)."""
    if m.kind == 'exp':
        return _expect_exp(m, d, n, exact)
    if d in (NAN, PINF, NINF):
        return _special(m, d)
    if m.kind == 'real':
        o = Outcome(values={d}, inexact=False, overflow=False, why='real')
        if isinstance(d, Fraction) and d.denominator & (d.denominator - 1):
            # a non-dyadic rational has no Float form: refusing is the only alternative to the exact value
            o.raises = {'ValueError'}
        return o
    if d in (PZERO, NZERO):
        return Outcome(values={_zero(m, d == NZERO)}, inexact=False, overflow=False, why='zero')
    q = d
    nn = m.nmin
    if n is not None:
        nn = n if m.nmin is None else max(n, m.nmin)
    r, neg, inexact = round_real(q, m.p, nn, m.rm)
    if inexact and exact:
        return Outcome(raises={'ValueError'}, why='exact inexact')
    if m.bounded():
        if (r > 0 and r > m.pos_max) or (r < 0 and r < m.neg_max):
            return _overflow_outcome(m, q, r, neg, exact)
    if r == 0:
        return Outcome(values={_zero(m, neg)}, inexact=inexact, overflow=False, why='to zero')
    return Outcome(values={r}, inexact=inexact, overflow=False, why='finite')


def _expect_exp(m: Model, d, n, exact) -> Outcome:
    """ExpContext: members are 2^k (emin <= k <= emax) and NaN; no zero, no negatives."""
    emin, emax = m.nmin, m.p_emax
    if d == NAN:
        return Outcome(values={NAN}, why='exp nan')
    if d == PINF or d == NINF:
        if m.inf_sub is not None:
            return Outcome(values={m.inf_sub}, why='exp inf sub')
        return Outcome(values={NAN}, why='exp inf')
    if d in (PZERO, NZERO):
        # not representable, nothing near: NaN (documented: only NaN is special)
        return Outcome(values={NAN}, why='exp zero')
    if d < 0:
        _, _, inx = round_real(d, 1, n, m.rm)
        if inx and exact:
            return Outcome(raises={'ValueError'}, why='exp exact')
        return Outcome(values={NAN}, why='exp negative')
    r, neg, inexact = round_real(d, 1, n, m.rm)
    if inexact and exact:
        return Outcome(raises={'ValueError'}, why='exp exact')
    if r == 0:
        return Outcome(values={NAN}, why='exp rounds to zero')
    e = floor_log2(r)
    if e < emin:
        if exact:
            return Outcome(raises={'ValueError'})
        o = Outcome(inexact=True, overflow=True, why='exp underflow')
        if m.overflow == 'SATURATE':
            o.values = {pow2(emin)}
        else:
            o.values = {NAN, pow2(emin)}
        return o
    if e > emax:
        if exact:
            return Outcome(raises={'ValueError'})
        o = Outcome(inexact=True, overflow=True, why='exp overflow')
        if m.overflow == 'SATURATE':
            o.values = {pow2(emax)}
        else:
            o.values = {NAN, pow2(emax)}
            if m.inf_sub is not None:
                o.values.add(m.inf_sub)
        return o
    return Outcome(values={r}, inexact=inexact, overflow=False, why='exp finite')


def check_outcome(o: Outcome, got_den=None, got_inexact=None, got_overflow=None, raised=None):
    """Returns None when the observation is permitted, else a short reason."""
    if raised is not None:
        if raised in o.raises:
            return None
        return f'raised {raised}'
    if not o.values:
        return f'returned instead of raising {sorted(o.raises)}'
    if got_den not in o.values:
        return 'wrong value'
    if o.inexact is not None and got_inexact != o.inexact:
        return 'inexact flag'
    if o.overflow is not None and got_overflow != o.overflow:
        return 'overflow flag'
    return None
