"""
C03 helper: enclosure decision procedure for elementary functions and named constants.

Everything here is independent of fpy2's engine code (fpy2.number.engine.*, fpy2.number.gmputils):

* operands are exact rationals (`Fraction`), converted to MPFR numbers exactly by this module;
* the function is evaluated by gmpy2 (MPFR) twice, under RoundDown and under RoundUp, at a working
  precision taken from a ladder far above the target precision; both ends are converted back to
  exact `Fraction`s, so   lo <= f(x) <= hi   with hi - lo <= one unit in the last place at the working
  precision (trusted base: MPFR's directed rounding of its correctly rounded functions);
* the caller rounds both ends with vlib.oracle_round; when both ends round to the same member the
  answer is decided, otherwise the precision is raised; when the ladder is exhausted the case is
  UNDECIDED (never a violation);
* true results that are rational are produced by a table of algebraic identities (`exact_value`),
  not by MPFR: they are the only results that can sit exactly on a rounding breakpoint.

Never uses the implementation's technique (round toward zero at p+2 digits + sticky bit, re-round).
"""

from __future__ import annotations

import math
from fractions import Fraction

import gmpy2

EMIN = gmpy2.get_emin_min()
EMAX = gmpy2.get_emax_max()

LADDER = (128, 256, 512, 1024, 2048, 4096)
W_MAX = LADDER[-1]

UNARY = ('exp', 'exp2', 'exp10', 'expm1', 'log', 'log2', 'log10', 'log1p',
         'sin', 'cos', 'tan', 'asin', 'acos', 'atan',
         'sinh', 'cosh', 'tanh', 'asinh', 'acosh', 'atanh',
         'erf', 'erfc', 'tgamma', 'lgamma')
BINARY = ('atan2', 'pow')
FUNCTIONS = UNARY + BINARY

# name of the gmpy2 context method evaluating the function
_GMP_NAME = {f: f for f in FUNCTIONS}
_GMP_NAME['tgamma'] = 'gamma'

ZERO = Fraction(0)
ONE = Fraction(1)


class DomainError(ValueError):
    pass


# ---------------------------------------------------------------------------
# exact conversions

def is_dyadic(q: Fraction) -> bool:
    d = q.denominator
    return d & (d - 1) == 0


_ctx_cache: dict = {}


def gctx(prec: int, rnd):
    """A gmpy2 context object (not installed globally) with the full exponent range."""
    key = (prec, rnd)
    c = _ctx_cache.get(key)
    if c is None:
        c = gmpy2.context(precision=prec, round=rnd, emin=EMIN, emax=EMAX,
                          trap_underflow=False, trap_overflow=False, trap_inexact=False,
                          trap_invalid=False, trap_erange=False, trap_divzero=False)
        if len(_ctx_cache) > 4096:
            _ctx_cache.clear()
        _ctx_cache[key] = c
    return c


def to_mpfr(q: Fraction, neg_zero: bool = False):
    """Exact MPFR number for a dyadic rational (or a signed zero)."""
    if q == 0:
        return gmpy2.mpfr('-0' if neg_zero else '0', 2)
    n, d = q.numerator, q.denominator
    if d & (d - 1):
        raise ValueError(f'not dyadic: {q}')
    k = d.bit_length() - 1
    prec = max(2, abs(n).bit_length())
    c = gctx(prec, gmpy2.RoundToZero)
    x = c.div_2exp(gmpy2.mpfr(gmpy2.mpz(n), prec), k) if k else gmpy2.mpfr(gmpy2.mpz(n), prec)
    if to_fraction(x) != q:
        raise AssertionError(f'inexact operand conversion {q} -> {x}')
    return x


def to_fraction(x) -> Fraction:
    """Exact value of a finite MPFR number."""
    if not gmpy2.is_finite(x):
        raise ValueError(f'not finite: {x}')
    n, d = x.as_integer_ratio()
    return Fraction(int(n), int(d))


def floor_log2(a: Fraction) -> int:
    assert a > 0
    e = a.numerator.bit_length() - a.denominator.bit_length()
    if (Fraction(1 << e) if e >= 0 else Fraction(1, 1 << -e)) > a:
        e -= 1
    return e


# ---------------------------------------------------------------------------
# domains (finite operand -> finite real result)

def in_domain(fname: str, args) -> bool:
    """args: tuple of Fractions (zeros as Fraction(0)); True when f(args) is a finite real number."""
    if fname in ('exp', 'exp2', 'exp10', 'expm1', 'sin', 'cos', 'tan', 'atan', 'sinh', 'cosh', 'tanh',
                 'asinh', 'erf', 'erfc'):
        return True
    x = args[0]
    if fname in ('log', 'log2', 'log10'):
        return x > 0
    if fname == 'log1p':
        return x > -1
    if fname in ('asin', 'acos'):
        return -1 <= x <= 1
    if fname == 'acosh':
        return x >= 1
    if fname == 'atanh':
        return -1 < x < 1
    if fname in ('tgamma', 'lgamma'):
        return not (x <= 0 and x.denominator == 1)
    if fname == 'atan2':
        y, x = args
        return not (x == 0 and y == 0)
    if fname == 'pow':
        x, y = args
        if x > 0:
            return True
        if x == 0:
            return y > 0
        return y.denominator == 1
    raise KeyError(fname)


# ---------------------------------------------------------------------------
# algebraic identities: rational true results

_EXACT_BITS_CAP = 60000


def _iroot_exact(a: int, k: int):
    """Integer k-th root of a >= 0 when exact, else None."""
    if a in (0, 1):
        return a
    if a.bit_length() <= k:
        return None          # a perfect k-th power >= 2^k has more than k bits
    r, ok = gmpy2.iroot(gmpy2.mpz(a), k)
    return int(r) if ok else None


def _pow2_like(x: Fraction) -> bool:
    """|x| is a power of two (so are all its integer powers)."""
    a, b = abs(x.numerator), x.denominator
    return a & (a - 1) == 0 and b & (b - 1) == 0


def pow_exact(x: Fraction, y: Fraction):
    """x**y as a Fraction when rational; None when irrational, or rational with an odd part of more than
    _EXACT_BITS_CAP bits (such a value needs more significant digits than any target format explored here, so it
    cannot be a member or a midpoint: the enclosure procedure decides it); 'big' for a power of two too large to form.
    Domain as in `in_domain('pow')`."""
    if y == 0:
        return ONE
    if x == 0:
        return ZERO
    if x == 1:
        return ONE
    n, d = y.numerator, y.denominator
    if d == 1:
        if x == -1:
            return ONE if n % 2 == 0 else -ONE
        size = max(x.numerator.bit_length(), x.denominator.bit_length()) * abs(n)
        if size > _EXACT_BITS_CAP:
            return 'big' if _pow2_like(x) else None
        return x ** n
    # y = n / 2^m with n odd: rational iff x is a perfect 2^m-th power of a rational
    assert x > 0
    ra = _iroot_exact(x.numerator, d)
    rb = _iroot_exact(x.denominator, d)
    if ra is None or rb is None:
        return None
    r = Fraction(ra, rb)
    size = max(r.numerator.bit_length(), r.denominator.bit_length()) * abs(n)
    if size > _EXACT_BITS_CAP:
        return 'big' if _pow2_like(r) else None
    return r ** n


def _log_int_base(x: Fraction, b: int):
    """k with x == b**k (k integer), else None."""
    if x == 1:
        return 0
    if x > 1:
        if x.denominator != 1:
            return None
        v, k = x.numerator, 0
        while v % b == 0:
            v //= b
            k += 1
        return k if v == 1 else None
    inv = 1 / x
    k = _log_int_base(inv, b)
    return None if k is None else -k


def exact_value(fname: str, args):
    """The true result when it is rational (a Fraction); None when it is irrational (by the classical
    transcendence results for these functions at rational points: Lindemann-Weierstrass, Gelfond-Schneider),
    not known to be rational, or rational with an odd part too large to be a breakpoint of any explored format;
    'big' when it is a power of two too large to write down."""
    x = args[0]
    if fname in ('exp', 'cos', 'cosh'):
        return ONE if x == 0 else None
    if fname in ('expm1', 'log1p', 'sin', 'tan', 'asin', 'atan', 'sinh', 'tanh', 'asinh', 'atanh', 'erf'):
        return ZERO if x == 0 else None
    if fname == 'erfc':
        return ONE if x == 0 else None
    if fname in ('log', 'acos', 'acosh'):
        return ZERO if x == 1 else None
    if fname == 'exp2':
        if x.denominator != 1:
            return None
        if abs(x.numerator) > _EXACT_BITS_CAP:
            return 'big'
        return Fraction(2) ** x.numerator
    if fname == 'exp10':
        if x.denominator != 1:
            return None
        if abs(x.numerator) * 4 > _EXACT_BITS_CAP:
            return None          # odd part 5^|x| far beyond any target precision: never a breakpoint
        return Fraction(10) ** x.numerator
    if fname == 'log2':
        k = _log_int_base(x, 2)
        return None if k is None else Fraction(k)
    if fname == 'log10':
        k = _log_int_base(x, 10)
        return None if k is None else Fraction(k)
    if fname == 'tgamma':
        if x.denominator == 1 and x >= 1:
            if x > 2000:
                return None      # odd part of (x-1)! far beyond any target precision: never a breakpoint
            return Fraction(math.factorial(int(x) - 1))
        return None
    if fname == 'lgamma':
        return ZERO if x in (1, 2) else None
    if fname == 'atan2':
        y, xx = args
        return ZERO if (y == 0 and xx > 0) else None
    if fname == 'pow':
        return pow_exact(args[0], args[1])
    raise KeyError(fname)


# ---------------------------------------------------------------------------
# enclosures

def _eval(fname: str, margs, w: int, rnd):
    c = gctx(w, rnd)
    r = getattr(c, _GMP_NAME[fname])(*margs)
    if fname == 'lgamma':
        r = r[0]
    return r


def enclose(fname: str, margs, w: int):
    """(lo, hi) exact Fractions with lo <= f(args) <= hi, from MPFR evaluations at precision w under
    RoundDown / RoundUp.  `margs`: exact MPFR operands (see to_mpfr)."""
    lo = _eval(fname, margs, w, gmpy2.RoundDown)
    hi = _eval(fname, margs, w, gmpy2.RoundUp)
    if not (gmpy2.is_finite(lo) and gmpy2.is_finite(hi)):
        raise DomainError(f'{fname}{tuple(margs)} is not finite at precision {w}: {lo}, {hi}')
    flo, fhi = to_fraction(lo), to_fraction(hi)
    if flo > fhi:
        raise AssertionError(f'inverted enclosure {fname}{tuple(margs)} w={w}')
    return flo, fhi


def ladder_from(pneed: int):
    """Working precisions >= pneed + 32 from the ladder (at least the last rung)."""
    out = [w for w in LADDER if w >= pneed + 32]
    return out or [W_MAX]


# ---------------------------------------------------------------------------
# constants: enclosures by interval arithmetic over exact rationals around one or two
# directed MPFR evaluations.  Each entry: name -> function(w) -> (lo, hi)

def _pi(w):
    return (to_fraction(gctx(w, gmpy2.RoundDown).const_pi()), to_fraction(gctx(w, gmpy2.RoundUp).const_pi()))


def _un(name, q, w):
    x = to_mpfr(q)
    return enclose(name, (x,), w)


def _sqrt_iv(lo: Fraction, hi: Fraction, w):
    """Enclosure of sqrt over [lo, hi] (lo > 0): integer square roots on scaled numerators (no MPFR)."""
    def isq(q, up):
        # floor/ceil of sqrt(q) * 2^w / 2^w
        num = q.numerator << (2 * w)
        v = num // q.denominator
        r = math.isqrt(v)
        if up:
            # ceil: sqrt(q)*2^w <= r+1 always holds when r = isqrt(floor(q*4^w))
            r += 1
        return Fraction(r, 1 << w)
    return isq(lo, False), isq(hi, True)


def const_enclosure(name: str, w: int):
    if name == 'pi':
        return _pi(w)
    if name == 'e':
        return _un('exp', ONE, w)
    if name == 'ln2':
        return _un('log', Fraction(2), w)
    if name == 'log2e':
        lo, hi = _un('log', Fraction(2), w)       # log2(e) = 1 / ln 2
        return 1 / hi, 1 / lo
    if name == 'log10e':
        lo, hi = _un('log', Fraction(10), w)      # log10(e) = 1 / ln 10
        return 1 / hi, 1 / lo
    if name == 'pi_2':
        lo, hi = _pi(w)
        return lo / 2, hi / 2
    if name == 'pi_4':
        lo, hi = _pi(w)
        return lo / 4, hi / 4
    if name == '1_pi':
        lo, hi = _pi(w)
        return 1 / hi, 1 / lo
    if name == '2_pi':
        lo, hi = _pi(w)
        return 2 / hi, 2 / lo
    if name == '2_sqrt_pi':
        lo, hi = _pi(w)
        slo, shi = _sqrt_iv(lo, hi, w)
        return 2 / shi, 2 / slo
    if name == 'sqrt2':
        return _sqrt_iv(Fraction(2), Fraction(2), w)
    if name == 'sqrt1_2':
        return _sqrt_iv(Fraction(1, 2), Fraction(1, 2), w)
    raise KeyError(name)


CONSTANTS = ('pi', 'e', 'log2e', 'log10e', 'ln2', 'pi_2', 'pi_4', '1_pi', '2_pi', '2_sqrt_pi', 'sqrt2', 'sqrt1_2')

# fpy2.ops entry point of each constant
CONST_OPS = {'pi': 'const_pi', 'e': 'const_e', 'log2e': 'const_log2e', 'log10e': 'const_log10e', 'ln2': 'const_ln2',
             'pi_2': 'const_pi_2', 'pi_4': 'const_pi_4', '1_pi': 'const_1_pi', '2_pi': 'const_2_pi',
             '2_sqrt_pi': 'const_2_sqrt_pi', 'sqrt2': 'const_sqrt2', 'sqrt1_2': 'const_sqrt1_2'}

# 60 decimal digits from published tables, for the self-test only
KNOWN_DIGITS = {
    'pi': '3.14159265358979323846264338327950288419716939937510582097494',
    'e': '2.71828182845904523536028747135266249775724709369995957496696',
    'ln2': '0.693147180559945309417232121458176568075500134360255254120680',
    'log2e': '1.44269504088896340735992468100189213742664595415298593413544',
    'log10e': '0.434294481903251827651128918916605082294397005803666566114453',
    'sqrt2': '1.41421356237309504880168872420969807856967187537694807317667',
    'sqrt1_2': '0.707106781186547524400844362104849039284835937688474036588339',
    '1_pi': '0.318309886183790671537767526745028724068919291480912897495334',
    '2_pi': '0.636619772367581343075535053490057448137838582961825794990669',
    '2_sqrt_pi': '1.12837916709551257389615890312154517168810125865799771368817',
    'pi_2': '1.57079632679489661923132169163975144209858469968755291048747',
    'pi_4': '0.785398163397448309615660845819875721049292349843776455243736',
}


def selftest():
    # constants against published digits
    for name, s in KNOWN_DIGITS.items():
        lo, hi = const_enclosure(name, 256)
        digs = len(s.split('.')[1])
        v = Fraction(s)
        eps = Fraction(1, 10 ** (digs - 1))
        assert lo <= hi and hi - lo < Fraction(1, 1 << 240), (name, 'width')
        assert v - eps <= lo and hi <= v + eps, (name, float(lo), s)
        # nesting: higher precision enclosure lies inside
        lo2, hi2 = const_enclosure(name, 1024)
        assert lo <= lo2 <= hi2 <= hi, (name, 'nesting')
    # two independent routes to the same constant must overlap
    a = enclose('log2', (to_mpfr(Fraction(3)),), 300)
    b0 = enclose('log', (to_mpfr(Fraction(3)),), 400)
    b1 = enclose('log', (to_mpfr(Fraction(2)),), 400)
    assert b0[0] / b1[1] <= a[1] and a[0] <= b0[1] / b1[0], 'log2 3 vs ln3/ln2'
    e1 = const_enclosure('log2e', 300)
    el, eh = const_enclosure('e', 400)
    e2 = (enclose('log2', (gctx(400, gmpy2.RoundDown).exp(1),), 300)[0], enclose('log2', (gctx(400, gmpy2.RoundUp).exp(1),), 300)[1])
    assert e2[0] <= e1[1] and e1[0] <= e2[1], 'log2e two routes'
    # rational results known in closed form must lie inside the MPFR enclosure; exact ones collapse it
    for fname, args in (('exp10', (Fraction(-3),)), ('pow', (Fraction(3), Fraction(-2))), ('pow', (Fraction(9, 4), Fraction(3, 2))),
                        ('tgamma', (Fraction(6),)), ('log2', (Fraction(1, 8),)), ('log10', (Fraction(1000),)),
                        ('pow', (Fraction(2), Fraction(10))), ('exp2', (Fraction(-7),)), ('pow', (Fraction(-3), Fraction(3)))):
        v = exact_value(fname, args)
        lo, hi = enclose(fname, tuple(to_mpfr(a) for a in args), 200)
        assert isinstance(v, Fraction) and lo <= v <= hi, (fname, args, v, float(lo))
        if is_dyadic(v):
            assert lo == hi == v, (fname, args)
    assert pow_exact(Fraction(2), Fraction(1, 2)) is None and pow_exact(Fraction(1, 4), Fraction(-3, 2)) == 8
    assert exact_value('exp2', (Fraction(1, 2),)) is None and exact_value('log10', (Fraction(1, 8),)) is None
    # function identities on enclosures: sin^2 + cos^2 = 1, exp(log x) = x, gamma(x+1) = x gamma(x), erf + erfc = 1
    for q in (Fraction(3, 8), Fraction(-7, 4), Fraction(29, 2)):
        x = to_mpfr(q)
        s, c = enclose('sin', (x,), 256), enclose('cos', (x,), 256)
        sq = lambda iv: (min(iv[0] ** 2, iv[1] ** 2) if iv[0] * iv[1] > 0 else ZERO, max(iv[0] ** 2, iv[1] ** 2))
        lo = sq(s)[0] + sq(c)[0]
        hi = sq(s)[1] + sq(c)[1]
        assert lo <= 1 <= hi and hi - lo < Fraction(1, 1 << 240), ('pythagoras', q)
        a, b = enclose('erf', (x,), 256), enclose('erfc', (x,), 256)
        assert a[0] + b[0] <= 1 <= a[1] + b[1], ('erf+erfc', q)
        if q > 0:
            g0 = enclose('tgamma', (x,), 256)
            g1 = enclose('tgamma', (to_mpfr(q + 1),), 256)
            assert q * g0[0] <= g1[1] and g1[0] <= q * g0[1], ('gamma recurrence', q)
            lg = enclose('lgamma', (x,), 256)
            el = enclose('log', (gctx(300, gmpy2.RoundDown).gamma(x),), 256)
            eh = enclose('log', (gctx(300, gmpy2.RoundUp).gamma(x),), 256)
            assert el[0] <= lg[1] and lg[0] <= eh[1], ('lgamma = log gamma', q)
    # operand conversion is exact, including signed zero
    assert to_fraction(to_mpfr(Fraction(-5, 1 << 70))) == Fraction(-5, 1 << 70)
    assert gmpy2.is_signed(to_mpfr(ZERO, True)) and not gmpy2.is_signed(to_mpfr(ZERO))
