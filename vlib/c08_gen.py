"""
C08 program generator: vlib.progen extended (by subclassing; progen itself is untouched) with loop-centred
productions, plus the sampler of transform configurations and inputs.

What it adds on top of progen
  * every compound statement of `main` (if / with / for / while) is produced here, so the generator knows every
    `for` and `while` loop in visit order (= what a `where` index counts), its nesting and its trip-count class:
        'A'   the loop runs len(first list parameter) times whatever the body does (all list parameters have equal length)
        int   a trip count fixed by the source text (range literals, list literals)
        None  unknown
    which is what decides where STRICT may be asked for;
  * iterables: list variables, list literals, `range` with 1-3 arguments (negative steps, empty ranges, `len(..)`
    bounds), `zip` of 2-3 equal-length lists (incl. a list with itself, with a comprehension over it, with a range),
    `enumerate(..)`, `enumerate(zip(..))`, `enumerate(range(..))`; targets with `_` slots and whole-tuple names;
  * bodies that reassign outer variables, store into the iterated list / an alias of it (at the current index, at
    an index ahead, through a helper), rebind the iterated name, reassign the loop target, return early, nest
    further loops and `with` blocks;
  * `any` / `all` over comprehensions in every statement position (assignment, `if`, `while` condition, under
    `and` / `or` guarding a faulting element, inside a conditional expression, nested, two per statement), with
    comprehension targets that shadow outer names;
  * names drawn from the transforms' own temporaries (`t n i j m acc b _i _src` and their numbered forms, which is
    how Gensym spells a refreshed name), also as parameters and as captured globals;
  * coarse contexts around loops (`MPFloatContext(1..2)`, `MPFixedContext(1..2)`) under which `i + 1` is not `i + 1`.

All random choices go through the progen Chooser, so everything is a pure function of the seed.
"""

from __future__ import annotations

from fractions import Fraction

from vlib import progen
from vlib.progen import Gen, Profile, Program, _Fn

COLLIDE_BASE = ['t', 'n', 'i', 'j', 'm', 'acc', 'b', '_i', '_src', 't', 'i', 'j']
PLAIN_PREFIX = {'v': 'v', 'b': 'p', 'xs': 'zs', 't': 'w', 'i': 'u', 'k': 'k', 'e': 'e', 'q': 'q', 'c': 'c'}

# contexts for `with` blocks around / inside loops: (text, counters 0..8 and k±1 exact?)
COARSE_CTXS = [
    ('fp.MPFloatContext(2, fp.RM.{rm})', False),
    ('fp.MPFloatContext(2)', False),
    ('fp.MPFloatContext(1, fp.RM.{rm})', False),
    ('fp.MPFloatContext(3, fp.RM.{rm})', False),
    ('fp.MPFixedContext(1, fp.RM.{rm})', False),
    ('fp.MPFixedContext(2, fp.RM.{rm})', False),
    ('fp.IEEEContext(3, 6, fp.RM.{rm})', False),
    ('fp.MPFloatContext(5, fp.RM.{rm})', True),
    ('fp.MPFixedContext(-2, fp.RM.{rm})', True),
]

LITS = ['0', '1', '2', '3', '5', '7', '10', '0.5', '1.5', '2.75', '0.1', '0.3', '100', '0.125', '6.0', '3.25']


def c08_profile(variant: int = 0) -> Profile:
    p = Profile(name='c08')
    p.max_helpers = 1
    p.max_stmts = 5
    p.max_depth = 3
    p.expr_depth = 2
    p.computed_ctx_args = False
    p.sqrt = False
    p.literals = list(LITS)
    if variant % 4 == 1:
        p.max_stmts = 3
        p.expr_depth = 1
        p.max_depth = 2
    if variant % 4 == 2:
        p.max_stmts = 6
        p.max_helpers = 0
    if variant % 4 == 3:
        p.with_blocks = True
        p.max_stmts = 4
    return p


class _CFn(_Fn):
    """Function state with colliding names, list length classes and a set of every name ever used."""

    def __init__(self, g, name, params, safe, is_main):
        super().__init__(g, name, params, safe, is_main)
        self.used = {n for n, _ in params}
        self.lcls = {}          # list var -> 'A' | int | None
        self.alias_of = {}      # list var -> the list it aliases

    def fresh(self, prefix):
        g = self.g
        ch = g.ch
        if ch.bool(g.collide_rate):
            for _ in range(6):
                base = ch.choice(COLLIDE_BASE)
                name = base if ch.bool(0.35) else f'{base}{ch.int(1, 24)}'
                if name not in self.used and name not in g.global_names:
                    self.used.add(name)
                    g.features.add('name-collision')
                    return name
        while True:
            self.counter += 1
            name = f'{PLAIN_PREFIX.get(prefix, prefix)}{self.counter}'
            if name not in self.used and name not in g.global_names:
                self.used.add(name)
                return name


class C08Gen(Gen):
    def __init__(self, ch, profile=None, collide_rate=0.6):
        super().__init__(ch, profile or c08_profile())
        self.collide_rate = collide_rate
        self.global_names = {}          # captured globals: name -> python text
        self.shadowed_globals = []
        self.for_loops = []             # records in visit order
        self.while_loops = []
        self.loop_stack = []            # ('for'|'while', record)
        self._in_main = False
        self.n_anyall = 0
        self.ret_slots = 2

    # -- small helpers -------------------------------------------------------
    def rm(self):
        return self.ch.choice(self.p.rm_pool)

    def coarse_ctx(self, fn):
        ch = self.ch
        if ch.bool(0.25):
            return self.ctx_text(fn, allow_computed=False)
        t, safe = ch.choice(COARSE_CTXS)
        return t.format(rm=self.rm()), safe

    def lit(self):
        ch = self.ch
        gl = [n for n, (txt, ty) in self.global_names.items() if ty == 'R']
        if gl and ch.bool(0.12):
            self.features.add('global-read')
            return ch.choice(gl)
        return super().lit()

    def expr(self, fn, ty, d):
        if ty == 'RET':
            return self.ret_text(fn, final=False)
        return super().expr(fn, ty, d)

    def ret_text(self, fn, final):
        """Tuple returned by main: a few reals, every list parameter, other lists, a bool."""
        ch = self.ch
        rs = self.vars_of(fn, 'R')
        ls = self.vars_of(fn, 'L')
        bs = self.vars_of(fn, 'B')
        parts = []
        if final:
            parts += rs[:10]
            parts += bs[:3]
            parts += ls[:5]
            parts += [f'fp.fst({t})' for t in self.vars_of(fn, 'T')[:2]]
            if not parts:
                parts = ['0']
        else:
            parts.append(ch.choice(['7', '-1', '0.5', '100']))      # marks an early exit
            for _ in range(ch.int(1, 2)):
                parts.append(ch.choice(rs) if rs else self.lit())
            if bs and ch.bool(0.3):
                parts.append(ch.choice(bs))
            parts += [l for l in ls if fn.lcls.get(l) == 'A'][:2]
        return '(' + ', '.join(parts) + (',)' if len(parts) == 1 else ')')

    def snapshot(self, fn):
        s = super().snapshot(fn)
        if isinstance(fn, _CFn):
            return s + (dict(fn.lcls), dict(fn.alias_of))
        return s

    def restore(self, fn, snap):
        super().restore(fn, snap)
        if isinstance(fn, _CFn) and len(snap) > 4:
            after = dict(fn.lcls)
            fn.lcls = dict(snap[4])
            fn.alias_of = dict(snap[5])
            # a class changed inside the branch/loop: unknown afterwards
            for n in list(fn.lcls):
                if n in after and after[n] != fn.lcls[n]:
                    fn.lcls[n] = None

    def lists_of_class(self, fn, cls):
        return [l for l in self.vars_of(fn, 'L') if fn.lcls.get(l) == cls and cls is not None]

    def bump(self, feat):
        self.features.add(feat)
        for _, rec in self.loop_stack:
            rec['inner_feats'].add(feat)

    # -- statements ----------------------------------------------------------
    def stmt(self, fn, ind, depth, out, in_loop, in_with):
        if not self._in_main:
            return super().stmt(fn, ind, depth, out, in_loop, in_with)
        ch = self.ch
        opts = [(26, 'simple'), (3, 'mklist'), (3, 'alias'), (5, 'anyall')]
        if depth > 0:
            opts += [(7, 'if'), (4, 'if1'), (9, 'with'), (22, 'for'), (8, 'while')]
        if in_loop:
            opts += [(6, 'early-ret'), (6, 'loop-acc')]
        k = ch.weighted(opts)
        if k == 'simple':
            return self.simple(fn, ind, out, in_loop, in_with)
        return getattr(self, 's_' + k.replace('-', '_'))(fn, ind, depth, out, in_loop, in_with)

    def simple(self, fn, ind, out, in_loop, in_with):
        n0 = len(out)
        r = super().stmt(fn, ind, 0, out, in_loop, in_with)
        # a progen statement that (re)binds a list: its length class is no longer known
        for line in out[n0:]:
            s = line.strip()
            head = s.split('=', 1)[0].strip() if '=' in s else ''
            head = head.split(':')[0].strip()
            if head in fn.env and fn.env[head] == 'L' and not s.startswith(head + '['):
                fn.lcls[head] = None
                fn.alias_of.pop(head, None)
            if '[' in head and head.split('[')[0] in fn.env:
                self.note_store(fn, head.split('[')[0])
        if r and in_loop:
            self.bump('early-return')
        return r

    def note_store(self, fn, lst):
        """A store into `lst`: does it hit the iterable of an enclosing loop?"""
        root = fn.alias_of.get(lst, lst)
        for kind, rec in self.loop_stack:
            if kind == 'for' and (lst in rec['srcs'] or root in rec['srcs'] or
                                  any(fn.alias_of.get(s, s) == root for s in rec['srcs'])):
                rec['feats'].add('mutates-iterable')
                self.features.add('mutates-iterable')
                if rec['kind'] in ('zip', 'enum', 'enumzip'):
                    self.features.add('derived-iter-body-mutates-source')

    def s_if(self, fn, ind, depth, out, in_loop, in_with):
        ch = self.ch
        out.append(f'{ind}if {self.expr_B(fn, self.p.expr_depth - 1)}:')
        snap = self.snapshot(fn)
        r1 = self.block(fn, ind + '    ', ch.int(1, 2), depth - 1, out, in_loop, in_with)
        self.restore(fn, snap)
        out.append(f'{ind}else:')
        r2 = self.block(fn, ind + '    ', ch.int(1, 2), depth - 1, out, in_loop, in_with)
        self.restore(fn, snap)
        self.features.add('if-else')
        return r1 and r2

    def s_if1(self, fn, ind, depth, out, in_loop, in_with):
        out.append(f'{ind}if {self.expr_B(fn, self.p.expr_depth - 1)}:')
        snap = self.snapshot(fn)
        self.block(fn, ind + '    ', self.ch.int(1, 2), depth - 1, out, in_loop, in_with)
        self.restore(fn, snap)
        self.features.add('if1')
        return False

    def s_with(self, fn, ind, depth, out, in_loop, in_with):
        ch = self.ch
        text, safe = self.coarse_ctx(fn)
        if ch.bool(0.15):
            cv = fn.fresh('c')
            out.append(f'{ind}with {text} as {cv}:')
        else:
            out.append(f'{ind}with {text}:')
        old = fn.safe
        fn.safe = safe
        if in_loop:
            self.bump('with-inside-loop')
        # names first bound inside the block stay visible after it (a `with` is not a scope)
        r = self.block(fn, ind + '    ', ch.int(1, 3), depth - 1, out, in_loop, in_with + 1)
        fn.safe = old
        self.features.add('with')
        return r

    def s_mklist(self, fn, ind, depth, out, in_loop, in_with):
        ch = self.ch
        ls = self.vars_of(fn, 'L')
        v = fn.fresh('xs')
        form = ch.weighted([(4, 'lit'), (4, 'comp'), (2, 'copy'), (2, 'range')]) if ls else ch.choice(['lit', 'range'])
        if form == 'lit':
            n = ch.int(0, 6)
            out.append(f'{ind}{v} = [' + ', '.join(self.expr_R(fn, 1) for _ in range(n)) + ']')
            cls, lb = n, n
        elif form == 'range':
            n = ch.int(0, 6)
            out.append(f'{ind}{v} = [{self.lit()} for _ in range({n})]')
            cls, lb = n, n
        elif form == 'comp':
            l = ch.choice(ls)
            q = fn.fresh('e')
            fn.env[q] = 'R'
            body = self.expr_R(fn, 1)
            del fn.env[q]
            out.append(f'{ind}{v} = [{body} for {q} in {l}]')
            cls, lb = fn.lcls.get(l), fn.len_lb.get(l, 0)
        else:
            l = ch.choice(ls)
            out.append(f'{ind}{v} = {l}[:]')
            cls, lb = fn.lcls.get(l), fn.len_lb.get(l, 0)
        fn.env[v] = 'L'
        fn.len_lb[v] = lb
        fn.lcls[v] = cls
        return False

    def s_alias(self, fn, ind, depth, out, in_loop, in_with):
        ls = self.vars_of(fn, 'L')
        if not ls:
            return self.simple(fn, ind, out, in_loop, in_with)
        l = self.ch.choice(ls)
        v = fn.fresh('xs')
        out.append(f'{ind}{v} = {l}')
        fn.env[v] = 'L'
        fn.len_lb[v] = fn.len_lb.get(l, 0)
        fn.lcls[v] = fn.lcls.get(l)
        fn.alias_of[v] = fn.alias_of.get(l, l)
        self.features.add('list-alias')
        return False

    def s_early_ret(self, fn, ind, depth, out, in_loop, in_with):
        out.append(f'{ind}if {self.expr_B(fn, 1)}:')
        out.append(f'{ind}    return {self.ret_text(fn, final=False)}')
        self.bump('early-return')
        return False

    def s_loop_acc(self, fn, ind, depth, out, in_loop, in_with):
        ch = self.ch
        vs = [v for v in self.vars_of(fn, 'R') if v not in fn.protected]
        if not vs:
            return self.simple(fn, ind, out, in_loop, in_with)
        v = ch.choice(vs)
        e = self.expr_R(fn, 1)
        out.append(f'{ind}{v} = ' + ch.choice([f'{v} + {e}', f'{v} * {e}', f'{v} - {e}', f'{e} - {v}', f'({v} + {e}) / 2',
                                               f'max({v}, {e})', f'fp.fma({v}, {e}, 1)']))
        self.features.add('reassigns-outer')
        return False

    # -- iterables -------------------------------------------------------------
    def range_text(self, fn):
        """(text, trip, index_class): index_class = the length class the counter validly indexes."""
        ch = self.ch
        ls = self.vars_of(fn, 'L')
        form = ch.weighted([(4, 'r1'), (3, 'r1len'), (3, 'r2'), (5, 'r3'), (2, 'r3len')])
        if form in ('r1len', 'r3len') and not ls:
            form = 'r1'
        if form == 'r1':
            n = ch.int(0, 7)
            return f'range({n})', n, None
        if form == 'r1len':
            l = ch.choice(ls)
            return f'range(len({l}))', fn.lcls.get(l), ('var', l)
        if form == 'r2':
            a, b = ch.int(0, 5), ch.int(0, 8)
            return f'range({a}, {b})', len(range(a, b)), None
        if form == 'r3':
            s = ch.choice([1, 2, 3, 4, -1, -2, -3])
            a, b = ch.int(0, 8), ch.int(0, 8)
            if ch.bool(0.6) and ((s > 0) != (a < b)):
                a, b = b, a
            return f'range({a}, {b}, {s})', len(range(a, b, s)), None
        # reverse walk over the indices of a list; the bound arithmetic must be exact
        l = ch.choice(ls)
        if fn.safe:
            return f'range(len({l}) - 1, -1, -1)', fn.lcls.get(l), ('var', l)
        return f'range(len({l}))', fn.lcls.get(l), ('var', l)

    def gen_iterable(self, fn):
        """dict(text, target, binds, trip, kind, srcs, idx): idx = (name, list) when `name` validly indexes `list`."""
        ch = self.ch
        ls = self.vars_of(fn, 'L')
        opts = [(7, 'range'), (2, 'litlist')]
        if ls:
            opts += [(8, 'list'), (7, 'zip'), (6, 'enum'), (4, 'enumzip'), (1, 'comp')]
        opts.append((1, 'enumrange'))
        kind = ch.weighted(opts)
        binds, srcs, idx = [], [], None

        def tgt(ty='R', may_discard=True):
            if may_discard and ch.bool(0.12):
                return '_'
            # now and then re-bind a live outer variable (a `for` target is an ordinary assignment)
            outer = [v for v in self.vars_of(fn, ty) if v not in fn.protected and v not in [b for b, _ in binds]]
            if outer and ty == 'R' and ch.bool(0.12):
                n = ch.choice(outer)
                self.features.add('target-rebinds-outer')
            else:
                n = fn.fresh('i')
            binds.append((n, ty))
            return n

        def partner(l):
            cls = fn.lcls.get(l)
            same = [x for x in ls if cls is not None and fn.lcls.get(x) == cls]
            k = ch.weighted([(6, 'same'), (2, 'self'), (2, 'comp'), (1, 'range')])
            if k == 'same' and same:
                return ch.choice(same)
            if k == 'comp':
                q = fn.fresh('e')
                return f'[{q} {ch.choice(["+", "*", "-"])} {self.lit()} for {q} in {l}]'
            if k == 'range':
                return f'range(len({l}))'
            return l

        if kind == 'list':
            l = ch.choice(ls)
            x = tgt(may_discard=False)
            return dict(text=l, target=x, binds=binds, trip=fn.lcls.get(l), kind='list', srcs=[l], idx=None)
        if kind == 'litlist':
            n = ch.int(0, 5)
            text = '[' + ', '.join(self.expr_R(fn, 1) for _ in range(n)) + ']'
            x = tgt(may_discard=False)
            return dict(text=text, target=x, binds=binds, trip=n, kind='litlist', srcs=[], idx=None)
        if kind == 'comp':
            l = ch.choice(ls)
            q = fn.fresh('e')
            text = f'[{q} {ch.choice(["+", "*"])} {self.lit()} for {q} in {l}]'
            x = tgt(may_discard=False)
            return dict(text=text, target=x, binds=binds, trip=fn.lcls.get(l), kind='comp', srcs=[l], idx=None)
        if kind == 'range':
            text, trip, ic = self.range_text(fn)
            x = tgt(may_discard=False)
            return dict(text=text, target=x, binds=binds, trip=trip, kind='range', srcs=[], idx=(x, ic[1]) if ic else None)
        if kind == 'enumrange':
            text, trip, _ = self.range_text(fn)
            i, x = tgt(), tgt()
            return dict(text=f'enumerate({text})', target=f'{i}, {x}', binds=binds, trip=trip, kind='enum', srcs=[], idx=None)
        if kind == 'zip':
            l = ch.choice(ls)
            self.features.add('zip')
            if ch.bool(0.12):
                # a nested destructuring slot: for (a, b), c in zip(zip(xs, ys), zs)
                p1, p2 = partner(l), partner(l)
                a, b, c = tgt(), tgt(), tgt()
                self.features.add('zip-nested-slot')
                return dict(text=f'zip(zip({l}, {p1}), {p2})', target=f'({a}, {b}), {c}', binds=binds, trip=fn.lcls.get(l), kind='zip',
                            srcs=[x for x in (l, p1, p2) if x in fn.env], idx=None)
            args = [l, partner(l)]
            if ch.bool(0.2):
                args.append(partner(l))
            srcs = [a for a in args if a in fn.env]
            if len(args) == 2 and ch.bool(0.15):
                p = tgt('T', may_discard=False)
                target = p
                self.features.add('zip-whole-tuple')
            else:
                target = ', '.join(tgt() for _ in args)
            return dict(text=f'zip({", ".join(args)})', target=target, binds=binds, trip=fn.lcls.get(l), kind='zip', srcs=srcs, idx=None)
        if kind == 'enum':
            l = ch.choice(ls)
            i = tgt()
            x = tgt()
            self.features.add('enumerate')
            return dict(text=f'enumerate({l})', target=f'{i}, {x}', binds=binds, trip=fn.lcls.get(l), kind='enum', srcs=[l],
                        idx=(i, l) if i != '_' else None)
        # enumerate(zip(..))
        l = ch.choice(ls)
        args = [l, partner(l)]
        if ch.bool(0.15):
            args.append(partner(l))
        i = tgt()
        if len(args) == 2 and ch.bool(0.2):
            inner = tgt('T', may_discard=False)
        else:
            inner = '(' + ', '.join(tgt() for _ in args) + ')'
        self.features.add('enumerate-zip')
        return dict(text=f'enumerate(zip({", ".join(args)}))', target=f'{i}, {inner}', binds=binds, trip=fn.lcls.get(l), kind='enumzip',
                    srcs=[a for a in args if a in fn.env], idx=(i, l) if i != '_' else None)

    # -- for ---------------------------------------------------------------------
    def s_for(self, fn, ind, depth, out, in_loop, in_with):
        ch = self.ch
        it = self.gen_iterable(fn)
        parent = None
        for kind, rec in reversed(self.loop_stack):
            if kind == 'for':
                parent = rec['id']
                break
        rec = dict(id=len(self.for_loops), trip=it['trip'], parent=parent, kind=it['kind'], srcs=list(it['srcs']),
                   feats=set(), inner_feats=set(), in_while=any(k == 'while' for k, _ in self.loop_stack),
                   coarse=not fn.safe, depth=len(self.loop_stack))
        self.for_loops.append(rec)
        for _, outer in self.loop_stack:
            outer['feats'].add('nested')
        if self.loop_stack:
            self.features.add('nested-loops')
        if not fn.safe:
            self.features.add('loop-under-coarse-ctx')
        if isinstance(it['trip'], int) and it['trip'] == 0:
            self.features.add('static-zero-trip')
        out.append(f'{ind}for {it["target"]} in {it["text"]}:')
        snap = self.snapshot(fn)
        for n, ty in it['binds']:
            fn.env[n] = ty
        idx = it['idx']
        if idx is not None:
            fn.protected.add(idx[0])
        self.loop_stack.append(('for', rec))
        i2 = ind + '    '
        n0 = len(out)
        returned = False
        for _ in range(ch.int(1, 3)):
            k = ch.weighted([(10, 'acc'), (7, 'store'), (3, 'early'), (9, 'generic'), (1, 'rebind'), (2, 'retarget'), (2, 'helper-store')])
            if k == 'acc':
                self.body_acc(fn, i2, out, it)
            elif k == 'store':
                self.body_store(fn, i2, out, it, rec)
            elif k == 'early':
                self.s_early_ret(fn, i2, depth, out, True, in_with)
            elif k == 'rebind':
                self.body_rebind(fn, i2, out, it, rec)
            elif k == 'retarget':
                rb = [n for n, ty in it['binds'] if ty == 'R' and n not in fn.protected]
                if rb:
                    n = ch.choice(rb)
                    out.append(f'{i2}{n} = {n} {ch.choice(["+", "*", "-"])} {self.expr_R(fn, 1)}')
                    self.features.add('reassigns-target')
            elif k == 'helper-store':
                self.body_helper_store(fn, i2, out, it, rec)
            else:
                if self.stmt(fn, i2, depth - 1, out, True, in_with):
                    returned = True
                    break
        if len(out) == n0:
            out.append(f'{i2}pass')
        self.loop_stack.pop()
        self.restore(fn, snap)
        self.features.add('for')
        return False

    def body_acc(self, fn, ind, out, it):
        ch = self.ch
        vs = [v for v in self.vars_of(fn, 'R') if v not in fn.protected and v not in [b for b, _ in it['binds']]]
        rb = [n for n, ty in it['binds'] if ty == 'R']
        tb = [n for n, ty in it['binds'] if ty == 'T']
        if not vs:
            v = fn.fresh('v')       # local to this iteration
            out.append(f'{ind}{v} = {self.expr_R(fn, 1)}')
            fn.env[v] = 'R'
            return
        v = ch.choice(vs)
        terms = list(rb) + [f'fp.fst({t})' for t in tb] + [f'fp.snd({t})' for t in tb]
        if not terms:
            terms = [self.lit()]
        a = ch.choice(terms)
        b = ch.choice(terms + [self.lit(), self.expr_R(fn, 1)])
        e = ch.choice([f'{v} + {a}', f'{v} + {a} * {b}', f'{v} * {b} + {a}', f'{a} - {v}', f'({v} + {a}) / {ch.choice(["2", "3", "10"])}',
                       f'fp.fma({v}, {b}, {a})', f'max({v}, {a}) + {b}', f'{v} * 2 + {a}', f'{v} - {a} * {a}'])
        out.append(f'{ind}{v} = {e}')
        self.features.add('reassigns-outer')

    def body_store(self, fn, ind, out, it, rec):
        ch = self.ch
        srcs = list(it['srcs'])
        aliases = [a for a, r in fn.alias_of.items() if a in fn.env and (r in srcs or any(fn.alias_of.get(s, s) == r for s in srcs))]
        idx = it['idx']
        cands = []      # (list, index text)
        for l in srcs + aliases:
            lb = fn.len_lb.get(l, 0)
            if lb > 0:
                cands.append((l, str(ch.int(0, lb - 1))))
                cands.append((l, str(lb - 1)))
            if idx is not None and fn.lcls.get(idx[1]) is not None and fn.lcls.get(l) == fn.lcls.get(idx[1]):
                cands.append((l, idx[0]))
                cands.append((l, idx[0]))
        if not cands:
            # no way to store into the iterable: store into some other list, or fall back to an accumulation
            others = [(l, str(ch.int(0, fn.len_lb[l] - 1))) for l in self.vars_of(fn, 'L') if fn.len_lb.get(l, 0) > 0]
            if idx is not None:
                others += [(l, idx[0]) for l in self.vars_of(fn, 'L')
                           if fn.lcls.get(l) is not None and fn.lcls.get(l) == fn.lcls.get(idx[1])]
            if not others:
                return self.body_acc(fn, ind, out, it)
            l, i = ch.choice(others)
            out.append(f'{ind}{l}[{i}] = {self.expr_R(fn, 1)}')
            self.note_store(fn, l)
            self.features.add('list-store')
            return
        l, i = ch.choice(cands)
        rb = [n for n, ty in it['binds'] if ty == 'R']
        e = self.expr_R(fn, 1)
        if rb and ch.bool(0.6):
            e = f'{ch.choice(rb)} {ch.choice(["+", "*", "-"])} {e}'
        out.append(f'{ind}{l}[{i}] = {e}')
        self.note_store(fn, l)
        self.features.add('list-store')

    def body_rebind(self, fn, ind, out, it, rec):
        ch = self.ch
        srcs = [s for s in it['srcs'] if s not in fn.protected]
        if not srcs:
            return self.body_acc(fn, ind, out, it)
        l = ch.choice(srcs)
        q = fn.fresh('e')
        out.append(f'{ind}{l} = [{q} + 1 for {q} in {l}]')       # same length class
        rec['feats'].add('rebinds-iterable')
        self.features.add('rebinds-iterable')

    def body_helper_store(self, fn, ind, out, it, rec):
        hs = [h for h in self.helpers if h[4] and h[2] == 'R' and len([p for p in h[1] if p[1] == 'L']) >= 1]
        srcs = [s for s in it['srcs']]
        srcs += [a for a, r in fn.alias_of.items() if a in fn.env and (r in srcs or any(fn.alias_of.get(s, s) == r for s in srcs))]
        if not hs or not srcs:
            return self.body_acc(fn, ind, out, it)
        h = self.ch.choice(hs)
        name, params, ret, has_ctx, mutates, minlen = h
        l = self.ch.choice(srcs)
        args = []
        used = False
        for pn, pt in params:
            if pt == 'L':
                if not used and fn.len_lb.get(l, 0) >= minlen.get(pn, 0):
                    args.append(l)
                    used = True
                else:
                    n = max(minlen.get(pn, 0), 1)
                    args.append('[' + ', '.join(self.expr_R(fn, 0) for _ in range(n)) + ']')
            else:
                args.append(self.expr(fn, pt, 1))
        if not used:
            return self.body_acc(fn, ind, out, it)
        v = fn.fresh('v')
        out.append(f'{ind}{v} = {name}({", ".join(args)})')
        fn.env[v] = 'R'
        self.note_store(fn, l)
        self.features.add('helper-mutates-iterable')

    # -- while -------------------------------------------------------------------
    def counter_update(self, fn, ind, out, c, op):
        if fn.safe:
            out.append(f'{ind}{c} = {c} {op} 1')
        else:
            out.append(f'{ind}with fp.INTEGER:')
            out.append(f'{ind}    {c} = {c} {op} 1')

    def s_while(self, fn, ind, depth, out, in_loop, in_with):
        ch = self.ch
        ls = self.vars_of(fn, 'L')
        c = fn.fresh('k')
        form = ch.weighted([(5, 'down'), (4, 'up'), (4, 'anyall'), (3, 'compound')])
        if form == 'anyall' and not ls:
            form = 'down'
        n = ch.int(0, 5)
        rec = dict(id=len(self.while_loops), trip=n, kind=form, feats=set(), inner_feats=set(), depth=len(self.loop_stack))
        self.while_loops.append(rec)
        for _, outer in self.loop_stack:
            outer['feats'].add('nested')
        if self.loop_stack:
            self.features.add('nested-loops')
        i2 = ind + '    '
        if form == 'down':
            out.append(f'{ind}{c} = {n}')
            out.append(f'{ind}while {c} > 0:')
            op = '-'
        elif form == 'up':
            out.append(f'{ind}{c} = 0')
            out.append(f'{ind}while {c} < {n}:')
            op = '+'
        elif form == 'anyall':
            out.append(f'{ind}{c} = 0')
            fn.env[c] = 'R'
            aa = self.anyall_text(fn, want_var=c)
            g = f'{c} < {n}'
            out.append(f'{ind}while {ch.choice([f"{aa} and {g}", f"{g} and {aa}"])}:')
            op = '+'
            self.features.add('anyall-in-while-cond')
            rec['trip'] = None
        else:
            out.append(f'{ind}{c} = {n}')
            fn.env[c] = 'R'
            out.append(f'{ind}while {c} > 0 and {self.expr_B(fn, 1)}:')
            op = '-'
            rec['trip'] = None
        fn.env[c] = 'R'
        fn.protected.add(c)
        snap = self.snapshot(fn)
        self.loop_stack.append(('while', rec))
        returned = False
        for _ in range(ch.int(1, 2)):
            k = ch.weighted([(8, 'acc'), (3, 'early'), (8, 'generic')])
            if k == 'acc':
                self.s_loop_acc(fn, i2, depth, out, True, in_with)
            elif k == 'early':
                self.s_early_ret(fn, i2, depth, out, True, in_with)
            else:
                if self.stmt(fn, i2, depth - 1, out, True, in_with):
                    returned = True
                    break
        if not returned:
            self.counter_update(fn, i2, out, c, op)
        self.loop_stack.pop()
        self.restore(fn, snap)
        self.features.add('while')
        return False

    # -- any / all -----------------------------------------------------------------
    def anyall_text(self, fn, want_var=None, fault_guard=False, iter_override=None):
        """`any([...])` / `all([...])` over a one-generator comprehension."""
        ch = self.ch
        ls = self.vars_of(fn, 'L')
        self.n_anyall += 1
        fname = ch.choice(['any', 'all'])
        binds = []

        def tgt():
            outer = [v for v in self.vars_of(fn, 'R') if v not in fn.protected and v != want_var and v not in binds]
            gl = [g for g, (_, ty) in self.global_names.items() if ty == 'R' and g not in binds and g != want_var
                  and g not in fn.env]
            if outer and ch.bool(0.3):
                n = ch.choice(outer)
                self.features.add('comp-target-shadows-outer')
            elif gl and ch.bool(0.2):
                # the target is spelled like a captured global: the comprehension's binding is local to it,
                # so a later read of the name is the captured value again
                n = ch.choice(gl)
                self.features.add('comp-target-shadows-global')
                self.shadowed_globals.append(n)
            else:
                n = fn.fresh('q')
            binds.append(n)
            return n

        k = ch.weighted([(8, 'list'), (3, 'zip'), (3, 'enum'), (3, 'range')]) if ls else 'range'
        if iter_override is not None:
            it, target = iter_override, tgt()
        elif k == 'list':
            l = ch.choice(ls)
            it, target = l, tgt()
        elif k == 'zip':
            l = ch.choice(ls)
            same = [x for x in ls if fn.lcls.get(l) is not None and fn.lcls.get(x) == fn.lcls.get(l)] or [l]
            it, target = f'zip({l}, {ch.choice(same)})', f'{tgt()}, {tgt()}'
            self.features.add('comp-over-zip')
        elif k == 'enum':
            l = ch.choice(ls)
            it, target = f'enumerate({l})', f'{tgt()}, {tgt()}'
            self.features.add('comp-over-enumerate')
        else:
            it, target = f'range({ch.int(0, 5)})', tgt()
        others = [v for v in self.vars_of(fn, 'R') if v not in binds]
        rhs = want_var if want_var else (ch.choice(others) if others and ch.bool(0.6) else self.lit())
        lhs = ch.choice(binds)
        if len(binds) > 1 and ch.bool(0.5):
            lhs = f'{binds[0]} {ch.choice(["+", "*", "-"])} {binds[1]}'
        elt = f'{lhs} {ch.choice(["<", "<=", ">", ">=", "==", "!="])} {rhs}'
        if fault_guard:
            elt = f'{fault_guard} {ch.choice(["<", ">="])} {lhs}'
        self.features.add('any-all')
        return f'{fname}([{elt} for {target} in {it}])'

    def s_anyall(self, fn, ind, depth, out, in_loop, in_with):
        ch = self.ch
        ls = self.vars_of(fn, 'L')
        forms = [(8, 'assign'), (5, 'andor'), (4, 'ifexp'), (3, 'two'), (3, 'nested'), (2, 'not'), (2, 'multi')]
        if depth > 0:
            forms.append((6, 'if'))
        if ls:
            forms += [(6, 'guard'), (2, 'incomp'), (5, 'guard-rows')]
        k = ch.weighted(forms)
        if in_loop:
            self.bump('anyall-in-loop')
        i2 = ind + '    '
        if k == 'if':
            out.append(f'{ind}if {self.anyall_text(fn)}:')
            snap = self.snapshot(fn)
            self.block(fn, i2, 1, 0, out, in_loop, in_with)
            self.restore(fn, snap)
            return False
        v = fn.fresh('b')
        if k == 'assign':
            e = self.anyall_text(fn)
        elif k == 'not':
            e = f'not {self.anyall_text(fn)}'
        elif k == 'andor':
            b1 = self.expr_B(fn, 1)
            aa = self.anyall_text(fn)
            e = ch.choice([f'{b1} and {aa}', f'{b1} or {aa}', f'{aa} and {b1}', f'{aa} or {b1}'])
            self.features.add('anyall-under-shortcircuit')
        elif k == 'guard':
            # the element faults unless the left operand of the short-circuit holds
            l = ch.choice(ls)
            c = ch.int(0, 4)
            aa = self.anyall_text(fn, fault_guard=f'{l}[{c}]')
            e = ch.choice([f'len({l}) > {c} and {aa}', f'len({l}) <= {c} or {aa}'])
            self.features.add('anyall-under-shortcircuit')
            self.features.add('anyall-guarded-fault')
        elif k == 'guard-rows':
            # the iterable is an index into a list of rows; only the guard keeps the index in range
            rr = fn.fresh('xs')
            rows = [ch.choice(ls) for _ in range(ch.int(0, 3))]
            out.append(f'{ind}{rr} = [' + ', '.join(rows) + ']')
            c = ch.int(0, 4)
            aa = self.anyall_text(fn, iter_override=f'{rr}[{c}]')
            e = ch.choice([f'len({rr}) > {c} and {aa}', f'len({rr}) <= {c} or {aa}', f'{c} < len({rr}) and {aa}'])
            self.features.add('anyall-under-shortcircuit')
            self.features.add('anyall-guarded-fault')
            self.features.add('anyall-indexed-iterable')
        elif k == 'ifexp':
            aa = self.anyall_text(fn)
            form = ch.int(0, 2)
            if form == 0:
                out.append(f'{ind}{v} = {self.expr_R(fn, 1)} if {aa} else {self.expr_R(fn, 1)}')
                fn.env[v] = 'R'
                return False
            e = f'({aa} if {self.expr_B(fn, 1)} else {ch.choice(["True", "False"])})' if form == 1 else \
                f'({ch.choice(["True", "False"])} if {self.expr_B(fn, 1)} else {aa})'
            self.features.add('anyall-in-ifexp-branch')
        elif k == 'two':
            e = f'{self.anyall_text(fn)} {ch.choice(["and", "or", "=="])} {self.anyall_text(fn)}'
            self.features.add('anyall-under-shortcircuit')
        elif k == 'nested':
            if ls:
                l = ch.choice(ls)
                w = fn.fresh('q')
                fn.env[w] = 'R'
                inner = self.anyall_text(fn, want_var=w)
                del fn.env[w]
                e = f'{ch.choice(["any", "all"])}([{inner} for {w} in {l}])'
            else:
                e = self.anyall_text(fn)
            self.features.add('anyall-nested')
        elif k == 'multi':
            w1, w2 = fn.fresh('q'), fn.fresh('q')
            e = f'{ch.choice(["any", "all"])}([{w1} < {w2} for {w1} in range({ch.int(0, 3)}) for {w2} in range({ch.int(0, 4)})])'
        else:   # incomp: a reduction inside a comprehension that builds a list
            l = ch.choice(ls)
            w = fn.fresh('q')
            fn.env[w] = 'R'
            inner = self.anyall_text(fn, want_var=w)
            del fn.env[w]
            x = fn.fresh('xs')
            out.append(f'{ind}{x} = [(1 if {inner} else 0) for {w} in {l}]')
            fn.env[x] = 'L'
            fn.len_lb[x] = fn.len_lb.get(l, 0)
            fn.lcls[x] = fn.lcls.get(l)
            return False
        out.append(f'{ind}{v} = {e}')
        fn.env[v] = 'B'
        while self.shadowed_globals:      # read the captured global again after the reduction
            g = self.shadowed_globals.pop()
            if g in fn.env:
                continue
            w = fn.fresh('t')
            out.append(f'{ind}{w} = {g} * 2 if {v} else {g} + 1')
            fn.env[w] = 'R'
        return False

    # -- functions ---------------------------------------------------------------
    def main_function(self, min_a):
        ch = self.ch
        p = self.p

        def pname(default, pool):
            if ch.bool(self.collide_rate * 0.6):
                for _ in range(4):
                    n = ch.choice(pool)
                    if n not in taken and n not in self.global_names:
                        taken.add(n)
                        self.features.add('name-collision')
                        return n
            taken.add(default)
            return default

        taken = set()
        params = [(pname('a0', ['t', '_src', 'n', 't1']), 'L'), (pname('a1', ['_src1', 'b', 'm', 'acc']), 'L')]
        for k in range(ch.int(1, 2)):
            params.append((pname(f'a{2 + k}', ['i', 'j', 'n', 'm', 'acc', 't', '_i', 'b']), 'R'))
        own_ctx = None
        safe = True
        if ch.bool(0.15):
            own_ctx, safe = self.coarse_ctx(None)
        fn = _CFn(self, 'main', params, safe, True)
        for n, t in params:
            if t == 'L':
                fn.len_lb[n] = min_a
                fn.lcls[n] = 'A'
                fn.protected.add(n)
        fn.ret_type = 'RET'
        body = []
        self._in_main = True
        # K must be a free variable of main for split(f, 'K') (documented: "the name of a free variable of the function")
        kk = fn.fresh('v')
        body.append(f'    {kk} = K')
        fn.env[kk] = 'R'
        # seed a few outer variables so loop bodies have something to reassign
        for _ in range(ch.int(1, 2)):
            v = fn.fresh('v')
            body.append(f'    {v} = {ch.choice([self.lit(), ch.choice([n for n, t in params if t == "R"])])}')
            fn.env[v] = 'R'
        nst = ch.int(2, p.max_stmts)
        returned = self.block(fn, '    ', nst, p.max_depth, body)
        # every generated program has at least one loop or reduction to restructure
        if not returned and not self.for_loops and not self.while_loops and not self.n_anyall:
            self.s_for(fn, '    ', 1, body, False, 0)
        if not returned:
            body.append(f'    return {self.ret_text(fn, final=True)}')
        self._in_main = False
        self.main_names = sorted(fn.used)
        sig = ', '.join(n for n, _ in params)
        deco = '@fp.fpy' if own_ctx is None else f'@fp.fpy(ctx={own_ctx})'
        self.lines += [deco, f'def main({sig}):'] + body + ['']
        if own_ctx is not None:
            self.features.add('main-with-own-ctx')
        return params

    def program(self):
        ch = self.ch
        # captured globals; K is the variable split factor
        self.global_names = {'K': (str(ch.int(1, 5)), 'R')}
        for _ in range(ch.int(0, 2)):
            n = ch.choice(['t', 'i', 'j', 'n', 'm', 'acc', 'b', '_i', '_src', 't2', 'i3'])
            if n not in self.global_names:
                self.global_names[n] = (ch.choice(['2', '3', '0.5', '1.5']), 'R')
                self.features.add('global-collides')
        glines = [f'{n} = {txt}' for n, (txt, _) in self.global_names.items()] + ['']
        nh = ch.int(0, self.p.max_helpers)
        for i in range(nh):
            self.helpers.append(self.function(f'h{i}', False))
        min_a = ch.weighted([(8, 0), (2, 1), (4, 2), (6, 3)])
        params = self.main_function(min_a)
        src = '\n'.join(glines + self.lines) + '\n'
        prog = Program(src=src, main='main', params=params, min_len={n: min_a for n, t in params if t == 'L'},
                       features=set(self.features), helpers=[h[0] for h in self.helpers], ret_type='RET')
        prog.for_loops = self.for_loops
        prog.while_loops = self.while_loops
        prog.min_a = min_a
        prog.k_value = int(self.global_names['K'][0])
        prog.n_anyall = self.n_anyall
        prog.names = self.main_names
        return prog


def gen_program(ch, profile=None, collide_rate=0.6):
    return C08Gen(ch, profile, collide_rate).program()


# ---------------------------------------------------------------------------
# inputs

TAME = [1, 2, 3, -1, 7, 0.5, -2.25, 3.75, 5, 10, 0.25, 100.0, 6, 4, -3, 1.5, 9, 12, 0.75, 20]
WILD = [0, -0.0, 0.1, Fraction(1, 3), 1e10, 1e-3, float('inf'), float('-inf'), float('nan'), 255, 0.3]
CALLER_CTXS = [None, None, None, None, 'fp.FP32', 'fp.FP16', 'fp.MPFloatContext(5, fp.RM.RTZ)', 'fp.IEEEContext(4, 8, fp.RM.RAZ)',
               'fp.MPFloatContext(8, fp.RM.RTN)', 'fp.REAL']


def gen_args(ch, params, length):
    """Argument tuple with every list parameter of the given length; list elements pairwise distinct when tame."""
    wild = ch.bool(0.2)
    args = []
    for n, t in params:
        if t == 'LL':       # nested list: `length` rows of 0..3 elements
            args.append([[ch.choice(TAME) for _ in range(ch.int(0, 3))] for _ in range(length)])
            continue
        if t == 'I':        # an index that is out of range about as often as not
            args.append(ch.int(0, 9))
            continue
        if t == 'L':
            if wild:
                args.append([ch.choice(TAME + WILD) for _ in range(length)])
            else:
                pool = list(TAME)
                xs = []
                for _ in range(length):
                    xs.append(pool.pop(ch.int(0, len(pool) - 1)))
                args.append(xs)
        else:
            args.append(ch.choice(TAME + WILD) if wild else ch.choice(TAME))
    return args


# ---------------------------------------------------------------------------
# configurations

def selected_for_loops(loops, where, tops=None):
    """Indices of the `for` loops a `where` takes (None: all; index: that one; site: it and everything beneath;
    region [lo, hi) of top-level statements: every loop whose top-level statement lies in it)."""
    if where is None:
        return [r['id'] for r in loops]
    if 'index' in where:
        return [where['index']]
    if 'site' in where:
        root = where['site']
        sel = {root}
        for r in loops:
            p = r['parent']
            while p is not None:
                if p == root:
                    sel.add(r['id'])
                    break
                p = loops[p]['parent']
        return sorted(sel)
    if 'region' in where and tops is not None:
        lo, hi = where['region']
        return [r['id'] for r in loops if lo <= tops[r['id']] < hi]
    return None


def strict_status(loops, sel, k):
    """'ok' (every selected loop runs 'A' or a multiple-of-k constant number of times), 'static-indivisible', or None."""
    st = 'ok'
    for i in sel:
        trip = loops[i]['trip']
        if trip == 'A':
            continue
        if isinstance(trip, int):
            if trip % k != 0:
                st = 'static-indivisible'
            continue
        return None
    return st


def strict_where_ok(loops, where, k):
    """An index counts sites, and under STRICT a loop refused for a provably indivisible length is not a site: an
    index is only meaningful to us when no loop of the program can be refused."""
    if where is not None and 'index' in where:
        return all(not isinstance(r['trip'], int) or r['trip'] % k == 0 for r in loops)
    return True


def sample_where(ch, n_sites, tops=None, n_top=0):
    if n_sites == 0:
        return None
    k = ch.weighted([(5, 'none'), (5, 'index'), (3, 'site'), (2, 'region')])
    if k == 'none':
        return None
    if k == 'index':
        return {'index': ch.int(0, n_sites - 1)}
    if k == 'site':
        return {'site': ch.int(0, n_sites - 1)}
    if tops is None or n_top == 0:
        return None
    # a region of top-level statements that holds at least one loop
    t = tops[ch.int(0, n_sites - 1)]
    lo = ch.int(0, t)
    hi = ch.int(t + 1, n_top)
    return {'region': [lo, hi]}


def sample_configs(ch, prog, n_cfg, for_tops=None, while_tops=None, n_top=0, names=()):
    """A list of transform configurations for one program (plain JSON-able dicts)."""
    nf, nw = len(prog.for_loops), len(prog.while_loops)
    feats = prog.features
    kinds = []
    if nf:
        kinds += [(10, 'unroll_for'), (10, 'split')]
    if nw:
        kinds += [(7, 'unroll_while')]
    if feats & {'zip', 'enumerate', 'enumerate-zip', 'comp-over-zip', 'comp-over-enumerate'}:
        kinds += [(6, 'elim_iter')]
    if prog.n_anyall:
        kinds += [(6, 'fuse')]
    if not kinds:
        kinds = [(1, 'fuse'), (1, 'elim_iter')]
    if nf:
        kinds += [(3, 'seq')]
    out = []
    seen = set()

    def ids(cfg_kind):
        if not names or not ch.bool(0.2):
            return None
        pick = lambda: ch.choice(list(names))
        if cfg_kind == 'unroll_for':
            return {'temp_id': pick(), 'len_id': pick(), 'idx_id': pick()}
        return {'temp_id': pick(), 'outer_id': pick(), 'inner_id': pick()}

    def one(kind, allow_where=True):
        if kind == 'unroll_for':
            times = ch.weighted([(4, 1), (3, 2), (2, 3), (2, 4)])
            where = sample_where(ch, nf, for_tops, n_top) if allow_where else None
            cfg = {'t': 'unroll_for', 'times': times, 'where': where, 'strategy': 'PEEL'}
            sel = selected_for_loops(prog.for_loops, where, for_tops)
            if sel is not None and ch.bool(0.35) and strict_where_ok(prog.for_loops, where, times + 1):
                st = strict_status(prog.for_loops, sel, times + 1)
                if st == 'ok' or (st == 'static-indivisible' and ch.bool(0.3)):
                    cfg['strategy'] = 'STRICT'
                    cfg['strict'] = st
            i = ids('unroll_for')
            if i:
                cfg['ids'] = i
            return cfg
        if kind == 'split':
            factor = ch.weighted([(2, 1), (4, 2), (4, 3), (2, 4), (2, 5), (4, 'K')])
            where = sample_where(ch, nf, for_tops, n_top) if allow_where else None
            cfg = {'t': 'split', 'factor': factor, 'where': where, 'strategy': 'PEEL'}
            k = prog.k_value if factor == 'K' else factor
            sel = selected_for_loops(prog.for_loops, where, for_tops)
            if sel is not None and ch.bool(0.35) and strict_where_ok(prog.for_loops, where, k):
                st = strict_status(prog.for_loops, sel, k)
                if st == 'ok' or (st == 'static-indivisible' and ch.bool(0.3)):
                    cfg['strategy'] = 'STRICT'
                    cfg['strict'] = st
            i = ids('split')
            if i:
                cfg['ids'] = i
            return cfg
        if kind == 'unroll_while':
            where = sample_where(ch, nw, while_tops, n_top) if allow_where else None
            return {'t': 'unroll_while', 'times': ch.int(1, 3), 'where': where}
        if kind == 'elim_iter':
            e, z = ch.choice([(True, True), (True, True), (True, False), (False, True)])
            return {'t': 'elim_iter', 'enum': e, 'zip': z}
        if kind == 'fuse':
            return {'t': 'fuse'}
        # a two-step schedule; later steps take where=None or an index (cursors of the first program are C19's business)
        first = ch.choice(['elim_iter', 'fuse', 'split', 'unroll_for', 'unroll_while' if nw else 'split'])
        second = ch.choice(['split', 'unroll_for', 'elim_iter', 'fuse'])
        a, b = one(first, allow_where=False), one(second, allow_where=False)
        for c in (a, b):
            if c.get('strategy') == 'STRICT':
                c['strategy'] = 'PEEL'
                c.pop('strict', None)
            c.pop('ids', None)
            # both steps take every loop, so the second multiplies the first: keep the product small
            if c['t'] in ('unroll_for', 'unroll_while'):
                c['times'] = min(c['times'], 2)
        return {'t': 'seq', 'steps': [a, b]}

    tries = 0
    while len(out) < n_cfg and tries < 4 * n_cfg:
        tries += 1
        cfg = one(ch.weighted(kinds))
        key = repr(cfg)
        if key in seen:
            continue
        seen.add(key)
        out.append(cfg)
    return out


def factor_of(cfg, prog_k):
    """The number of elements one rewritten iteration consumes (None where the notion does not apply)."""
    if cfg['t'] == 'unroll_for':
        return cfg['times'] + 1
    if cfg['t'] == 'split':
        return prog_k if cfg['factor'] == 'K' else cfg['factor']
    if cfg['t'] == 'unroll_while':
        return cfg['times'] + 1
    if cfg['t'] == 'seq':
        for s in cfg['steps']:
            f = factor_of(s, prog_k)
            if f:
                return f
    return None


def lengths_for(ch, cfg, prog_k, min_a, n):
    """List lengths 0..7 to run a configuration on: below, at, just above the factor, non-multiples, multiples."""
    k = factor_of(cfg, prog_k) or 2
    if cfg.get('strategy') == 'STRICT' and cfg.get('strict') == 'ok':
        cand = [m for m in range(0, 8) if m % k == 0]
    else:
        cand = [0, 1, k - 1, k, k + 1, 2 * k - 1, 2 * k, 2 * k + 1, 7, 6, 3]
    cand = [c for c in dict.fromkeys(cand) if min_a <= c <= 7]
    if not cand:
        cand = [c for c in range(min_a, 8) if cfg.get('strategy') != 'STRICT' or c % k == 0] or [min_a]
    if len(cand) <= n:
        return cand
    # keep the extremes, sample the middle
    picked = cand[:2] + cand[-1:]
    rest = [c for c in cand if c not in picked]
    while len(picked) < n and rest:
        picked.append(rest.pop(ch.int(0, len(rest) - 1)))
    return picked
