"""
Reference evaluator for FPy source text, written from docs/source/dev/semantics.rst,
derived-semantics.rst and docs/USAGE.md.  It walks *Python's* `ast` of the text (sharing neither
fpy2's parser tables nor its bytecode compiler) and computes with exact denotations:

    number ::= Fraction (non-zero) | '+0' | '-0' | '+inf' | '-inf' | 'nan'
    value  ::= bool | number | Ctx | list (Python list, shared by reference) | tuple

The active rounding context is an explicit argument of the recursion, so "restored after the
block" is structural.  Arithmetic = exact rational operation, then ONE rounding by
vlib.oracle_round under the context's Model.

Outcomes that the documents leave open make the run `Ambiguous` (case skipped, counted):
sign of an exact-cancellation zero under a round-toward-negative context, overflow under
RTO/RTE.  Stuck states raise `Stuck(kind)`.
"""

from __future__ import annotations

import ast
from fractions import Fraction
from math import isqrt

from . import formats as F
from .denote import NAN, NINF, NZERO, PINF, PZERO, pow2
from .oracle_round import Model, expect, floor_log2

SPECIAL = (NAN, NINF, NZERO, PINF, PZERO)


class Stuck(Exception):
    def __init__(self, kind, msg=''):
        super().__init__(f'{kind}: {msg}')
        self.kind = kind


class Ambiguous(Exception):
    pass


class Unsupported(Exception):
    pass


class Budget(Exception):
    pass


class _Return(Exception):
    def __init__(self, v):
        self.v = v


class Ctx:
    """A rounding context value: the oracle Model plus the spec it was built from."""
    def __init__(self, spec, model: Model):
        self.spec = spec
        self.m = model

    def __repr__(self):
        return f'Ctx{self.spec}'


REAL = Ctx(('real', (), {}), Model('real'))


def mk_ctx(kind, args, kw):
    _, m = F.build((kind, args, kw))
    return Ctx((kind, tuple(args), dict(kw)), m)


FP64 = None


def fp64():
    global FP64
    if FP64 is None:
        FP64 = mk_ctx('ieee', (11, 64), {'rm': 'RNE'})
    return FP64


NAMED = {
    'FP64': ('ieee', (11, 64), {}), 'FP32': ('ieee', (8, 32), {}), 'FP16': ('ieee', (5, 16), {}),
    'REAL': None, 'INTEGER': ('mpfixed', (-1,), {'rm': 'RTZ', 'enable_neg_zero': False}),
    'SINT8': ('fixed', (True, 0, 8), {'rm': 'RTZ', 'overflow': 'WRAP'}),
    'UINT8': ('fixed', (False, 0, 8), {'rm': 'RTZ', 'overflow': 'WRAP'}),
    'SINT16': ('fixed', (True, 0, 16), {'rm': 'RTZ', 'overflow': 'WRAP'}),
}

# constructor name -> (kind, positional parameter names after which rm/overflow follow)
CTORS = {
    'MPFloatContext': ('mp', ['pmax', 'rm']),
    'MPSFloatContext': ('mps', ['pmax', 'emin', 'rm']),
    'IEEEContext': ('ieee', ['es', 'nbits', 'rm', 'overflow']),
    'MPFixedContext': ('mpfixed', ['nmin', 'rm']),
    'FixedContext': ('fixed', ['signed', 'scale', 'nbits', 'rm', 'overflow']),
    'SMFixedContext': ('smfixed', ['scale', 'nbits', 'rm', 'overflow']),
}


# ---------------------------------------------------------------------------
# exact number kernel on denotations

def is_num(v):
    return isinstance(v, Fraction) or (isinstance(v, str) and v in SPECIAL)


def neg_of(d) -> bool:
    if d in (NZERO, NINF):
        return True
    if isinstance(d, Fraction):
        return d < 0
    return False


def is_zero(d):
    return d in (PZERO, NZERO)


def is_inf(d):
    return d in (PINF, NINF)


def qv(d) -> Fraction:
    return Fraction(0) if is_zero(d) else d


def zero(neg):
    return NZERO if neg else PZERO


def inf(neg):
    return NINF if neg else PINF


def rtn_like(ctx: Ctx) -> bool:
    return ctx.m.rm == 'RTN'


MAX_BITS = 6000


def rnd(ctx: Ctx, d):
    """C(d): one rounding."""
    if isinstance(d, Fraction) and (d.numerator.bit_length() > MAX_BITS or d.denominator.bit_length() > MAX_BITS):
        # exact arithmetic under REAL in a loop can square the digit count each step: give up on the case
        raise Budget()
    o = expect(ctx.m, d)
    if o.raises and not o.values:
        raise Stuck('round', f'{d} under {ctx}')
    if len(o.values) != 1 or o.raises:
        raise Ambiguous(f'round {d} under {ctx}: {o.values} {o.raises}')
    return next(iter(o.values))


def exact_sum_zero(ctx: Ctx, a_neg: bool, b_neg: bool):
    """Sign of an exact zero sum x + y (x, y zeros with the given signs, or exact cancellation
    when a_neg != b_neg)."""
    if a_neg == b_neg:
        return zero(a_neg)
    if rtn_like(ctx):
        raise Ambiguous('exact cancellation under RTN')
    return PZERO


def op_add(ctx, a, b):
    if a == NAN or b == NAN:
        return rnd(ctx, NAN)
    if is_inf(a) or is_inf(b):
        if is_inf(a) and is_inf(b):
            return rnd(ctx, a if a == b else NAN)
        return rnd(ctx, a if is_inf(a) else b)
    if is_zero(a) and is_zero(b):
        return rnd(ctx, exact_sum_zero(ctx, a == NZERO, b == NZERO))
    s = qv(a) + qv(b)
    if s == 0:
        return rnd(ctx, exact_sum_zero(ctx, False, True))
    return rnd(ctx, s)


def op_neg_exact(a):
    if a == NAN:
        return NAN
    if is_inf(a):
        return inf(a == PINF)
    if is_zero(a):
        return zero(a == PZERO)
    return -a


def op_sub(ctx, a, b):
    return op_add(ctx, a, op_neg_exact(b))


def op_mul(ctx, a, b):
    if a == NAN or b == NAN:
        return rnd(ctx, NAN)
    neg = neg_of(a) != neg_of(b)
    if is_inf(a) or is_inf(b):
        if is_zero(a) or is_zero(b):
            return rnd(ctx, NAN)
        return rnd(ctx, inf(neg))
    if is_zero(a) or is_zero(b):
        return rnd(ctx, zero(neg))
    return rnd(ctx, a * b)


def op_div(ctx, a, b):
    if a == NAN or b == NAN:
        return rnd(ctx, NAN)
    neg = neg_of(a) != neg_of(b)
    if is_inf(a):
        return rnd(ctx, NAN if is_inf(b) else inf(neg))
    if is_inf(b):
        return rnd(ctx, zero(neg))
    if is_zero(b):
        return rnd(ctx, NAN if is_zero(a) else inf(neg))
    if is_zero(a):
        return rnd(ctx, zero(neg))
    return rnd(ctx, a / b)


def op_neg(ctx, a):
    return rnd(ctx, op_neg_exact(a))


def op_abs(ctx, a):
    if a == NAN:
        return rnd(ctx, NAN)
    if is_inf(a):
        return rnd(ctx, PINF)
    if is_zero(a):
        return rnd(ctx, PZERO)
    return rnd(ctx, abs(a))


def op_fma(ctx, a, b, c):
    if NAN in (a, b, c):
        return rnd(ctx, NAN)
    pneg = neg_of(a) != neg_of(b)
    if is_inf(a) or is_inf(b):
        if is_zero(a) or is_zero(b):
            return rnd(ctx, NAN)
        p = inf(pneg)
        if is_inf(c) and c != p:
            return rnd(ctx, NAN)
        return rnd(ctx, p)
    if is_inf(c):
        return rnd(ctx, c)
    pz = is_zero(a) or is_zero(b)
    if pz and is_zero(c):
        return rnd(ctx, exact_sum_zero(ctx, pneg, c == NZERO))
    s = (Fraction(0) if pz else a * b) + qv(c)
    if s == 0:
        return rnd(ctx, exact_sum_zero(ctx, False, True))
    return rnd(ctx, s)


def op_sqrt(ctx, a):
    if ctx.m.kind == 'real':
        # the exact engine does not offer sqrt: no value is denoted
        raise Stuck('sqrt-real', 'sqrt under REAL is not offered')
    if a == NAN or a == NINF:
        return rnd(ctx, NAN)
    if a == PINF or is_zero(a):
        return rnd(ctx, a)
    if a < 0:
        return rnd(ctx, NAN)
    # enclosure by integer square root with far more digits than any breakpoint has
    p = ctx.m.p if ctx.m.p is not None else 0
    e = floor_log2(a)
    if ctx.m.p is None:
        # fixed point: need digits down to nmin
        need = max(8, (e // 2) - ctx.m.nmin + 8)
    else:
        need = p + 8
    k = need + 8
    # a * 4^k = n/d * 4^k
    num = a.numerator * (1 << (2 * k))
    s = isqrt(num // a.denominator)
    # s <= sqrt(a)*2^k < s+1 ; exact iff s*s*den == num
    if s * s * a.denominator == num:
        return rnd(ctx, Fraction(s, 1 << k))
    lo = Fraction(s, 1 << k)
    hi = Fraction(s + 1, 1 << k)
    r1 = rnd(ctx, lo + (hi - lo) / 3)
    r2 = rnd(ctx, lo + 2 * (hi - lo) / 3)
    if r1 != r2:
        raise Ambiguous('sqrt enclosure too wide')
    return r1


def _offered(ctx, *vals):
    """The remainder family is only offered by the rounding engine, for dyadic operands: under REAL,
    or for a non-dyadic rational, the operation is refused (NotImplementedError): no value is denoted."""
    if ctx.m.kind == 'real':
        raise Stuck('not-offered', 'remainder under REAL')
    for v in vals:
        if isinstance(v, Fraction) and v.denominator & (v.denominator - 1):
            raise Stuck('not-offered', 'remainder of a non-dyadic rational')


def op_mod(ctx, a, b):
    """x % y: exact x - y*floor(x/y) (sign of the divisor), rounded once.  Special operands and
    zero results are left to the operation-level check (C02): the documents do not pin them here."""
    _offered(ctx, a, b)
    if a == NAN or b == NAN or is_inf(a) or is_zero(b):
        return rnd(ctx, NAN)
    if not (isinstance(a, Fraction) and isinstance(b, Fraction)):
        raise Ambiguous('mod with zero dividend / infinite divisor')
    q = a / b
    fl = q.numerator // q.denominator
    r = a - b * fl
    if r == 0:
        raise Ambiguous('zero mod result: sign unspecified')
    return rnd(ctx, r)


def op_fmod(ctx, a, b):
    """fmod: x - y*trunc(x/y) (sign of the dividend), rounded once."""
    _offered(ctx, a, b)
    if a == NAN or b == NAN or is_inf(a) or is_zero(b):
        return rnd(ctx, NAN)
    if is_inf(b) or is_zero(a):
        return rnd(ctx, a)          # C99: fmod(x, inf) = x, fmod(+-0, y) = +-0
    q = a / b
    t = abs(q.numerator) // q.denominator
    t = -t if q < 0 else t
    r = a - b * t
    if r == 0:
        return rnd(ctx, zero(a < 0))
    return rnd(ctx, r)


def op_pow(ctx, a, b):
    """x ** n for a small integer n >= 0 (IEEE 754 pown rules for zero/infinite/NaN bases); other
    exponents are left to C02/C03."""
    if b == PZERO or b == NZERO:
        n = 0
    elif isinstance(b, Fraction) and b.denominator == 1 and 0 <= b <= 6:
        n = int(b)
    else:
        raise Ambiguous('pow with non-small-integer exponent')
    if n == 0:
        return rnd(ctx, Fraction(1))
    if a == NAN:
        return rnd(ctx, NAN)
    odd = n % 2 == 1
    if is_inf(a):
        return rnd(ctx, inf(neg_of(a) and odd))
    if is_zero(a):
        return rnd(ctx, zero(neg_of(a) and odd))
    return rnd(ctx, a ** n)


def op_rint(ctx, a, how):
    if a == NAN or is_inf(a) or is_zero(a):
        return rnd(ctx, a)
    neg = a < 0
    fl = a.numerator // a.denominator          # floor
    if how == 'floor':
        r = fl
    elif how == 'ceil':
        r = fl if a.denominator == 1 else fl + 1
    elif how == 'trunc':
        r = fl if (not neg or a.denominator == 1) else fl + 1
    else:
        raise Unsupported(how)
    if r == 0:
        return rnd(ctx, zero(neg))
    return rnd(ctx, Fraction(r))


def num_lt(a, b):
    """a < b on denotations (NaN unordered -> False)."""
    if a == NAN or b == NAN:
        return False
    return _key(a) < _key(b)


def num_eq(a, b):
    if a == NAN or b == NAN:
        return False
    return _key(a) == _key(b)


def _key(d):
    if d == PINF:
        return (1, 0)
    if d == NINF:
        return (-1, 0)
    return (0, qv(d))


def sel_min(vals, want_min=True):
    for v in vals:
        if not is_num(v):
            raise Stuck('type', 'min/max of non-number')
    for v in vals:
        if v == NAN:
            return v
    r = vals[0]
    for x in vals[1:]:
        if want_min:
            if num_lt(x, r) or (num_eq(x, r) and neg_of(x) and is_zero(x) and not neg_of(r)):
                r = x
        else:
            if num_lt(r, x) or (num_eq(x, r) and is_zero(x) and not neg_of(x) and neg_of(r)):
                r = x
    return r


def as_int(v, what='index'):
    if not is_num(v):
        raise Stuck('type', f'{what} not a number')
    if is_zero(v):
        return 0
    if not isinstance(v, Fraction) or v.denominator != 1:
        raise Stuck('type', f'{what} not an integer: {v}')
    return int(v)


def from_int(i: int):
    return PZERO if i == 0 else Fraction(i)


def lit_decimal(text: str):
    """Exact value of a Python numeric literal spelling (digits, '.', exponent, underscores)."""
    t = text.replace('_', '').lower()
    if t.startswith('0x') or t.startswith('0o') or t.startswith('0b'):
        v = Fraction(int(t, 0))
    else:
        v = Fraction(t)
    return PZERO if v == 0 else v


# ---------------------------------------------------------------------------

class Evaluator:
    def __init__(self, src: str, budget: int = 200000):
        self.src = src
        self.tree = ast.parse(src)
        self.funcs = {}
        self.fctx = {}
        self.globals = {}
        self.budget = budget
        for node in self.tree.body:
            if isinstance(node, ast.FunctionDef):
                self.funcs[node.name] = node
                self.fctx[node.name] = self._decorator_ctx(node)
            elif isinstance(node, ast.Assign) and len(node.targets) == 1 and isinstance(node.targets[0], ast.Name):
                # module-level constant (captured global): evaluated exactly, Python-boundary converted
                self.globals[node.targets[0].id] = self._global_value(node.value)

    # -- module level --------------------------------------------------------
    def _global_value(self, e):
        v = self.expr(e, {}, REAL)
        return v

    def _decorator_ctx(self, fn: ast.FunctionDef):
        for d in fn.decorator_list:
            if isinstance(d, ast.Call):
                for kw in d.keywords:
                    if kw.arg == 'ctx':
                        return self.expr(kw.value, {}, REAL)
        return None

    # -- entry ---------------------------------------------------------------
    def call_from_python(self, name, args, ctx: Ctx | None):
        """Python-boundary call: args are denotation structures (lists are copied)."""
        args = [self._copy_in(a) for a in args]
        return self.call(name, args, ctx if ctx is not None else fp64())

    def _copy_in(self, a):
        if isinstance(a, list):
            return [self._copy_in(x) for x in a]
        if isinstance(a, tuple):
            return tuple(self._copy_in(x) for x in a)
        return a

    def call(self, name, args, ctx: Ctx):
        fn = self.funcs[name]
        own = self.fctx[name]
        c = own if own is not None else ctx
        params = [a.arg for a in fn.args.posonlyargs + fn.args.args]
        if len(params) != len(args):
            raise Stuck('arity')
        env = dict(zip(params, args))
        body = fn.body
        if body and isinstance(body[0], ast.Expr) and isinstance(body[0].value, ast.Constant) and isinstance(body[0].value.value, str):
            body = body[1:]
        try:
            self.block(body, env, c)
        except _Return as r:
            return r.v
        raise Stuck('fallthrough', name)

    # -- statements ----------------------------------------------------------
    def tick(self):
        self.budget -= 1
        if self.budget < 0:
            raise Budget()

    def block(self, stmts, env, ctx):
        for s in stmts:
            self.stmt(s, env, ctx)

    def bind(self, target, v, env):
        if isinstance(target, ast.Name):
            if target.id != '_':
                env[target.id] = v
        elif isinstance(target, ast.Tuple):
            if not isinstance(v, tuple) or len(v) != len(target.elts):
                raise Stuck('match', 'tuple pattern')
            for t, x in zip(target.elts, v):
                self.bind(t, x, env)
        else:
            raise Unsupported(ast.dump(target))

    def stmt(self, s, env, ctx):
        self.tick()
        if isinstance(s, ast.Assign):
            t = s.targets[0]
            if isinstance(t, ast.Subscript):
                # xs[i][j] = e : indices and value evaluated, then the cell is updated in place
                idxs = []
                base = t
                while isinstance(base, ast.Subscript):
                    idxs.append(base.slice)
                    base = base.value
                idxs.reverse()
                lst = self.expr(base, env, ctx)
                ivals = [self.expr(i, env, ctx) for i in idxs]
                val = self.expr(s.value, env, ctx)
                for iv in ivals[:-1]:
                    lst = self.index(lst, iv)
                if not isinstance(lst, list):
                    raise Stuck('type', 'indexed assign to non-list')
                k = as_int(ivals[-1])
                if k < 0 or k >= len(lst):
                    raise Stuck('index', 'store')
                lst[k] = val
            else:
                v = self.expr(s.value, env, ctx)
                self.bind(t, v, env)
        elif isinstance(s, ast.AnnAssign):
            v = self.expr(s.value, env, ctx)
            self.bind(s.target, v, env)
        elif isinstance(s, ast.AugAssign):
            cur = self.expr(ast.Name(id=s.target.id, ctx=ast.Load()), env, ctx)
            rhs = self.expr(s.value, env, ctx)
            env[s.target.id] = self.binop(type(s.op), cur, rhs, ctx)
        elif isinstance(s, ast.If):
            c = self.expr(s.test, env, ctx)
            if not isinstance(c, bool):
                raise Stuck('type', 'if condition')
            if c:
                self.block(s.body, env, ctx)
            else:
                self.block(s.orelse, env, ctx)
        elif isinstance(s, ast.While):
            while True:
                self.tick()
                c = self.expr(s.test, env, ctx)
                if not isinstance(c, bool):
                    raise Stuck('type', 'while condition')
                if not c:
                    break
                self.block(s.body, env, ctx)
        elif isinstance(s, ast.For):
            it = self.expr(s.iter, env, ctx)
            if not isinstance(it, list):
                raise Stuck('type', 'for over non-list')
            # index loop over the list (derived semantics): length read each iteration
            i = 0
            while i < len(it):
                self.tick()
                self.bind(s.target, it[i], env)
                self.block(s.body, env, ctx)
                i += 1
        elif isinstance(s, ast.With):
            item = s.items[0]
            c2 = self.expr(item.context_expr, env, REAL)
            if not isinstance(c2, Ctx):
                raise Stuck('type', 'with non-context')
            if item.optional_vars is not None:
                env[item.optional_vars.id] = c2
            self.block(s.body, env, c2)
        elif isinstance(s, ast.Return):
            raise _Return(self.expr(s.value, env, ctx))
        elif isinstance(s, ast.Assert):
            c = self.expr(s.test, env, ctx)
            if c is not True:
                raise Stuck('assert')
        elif isinstance(s, ast.Pass):
            pass
        elif isinstance(s, ast.Expr):
            self.expr(s.value, env, ctx)
        else:
            raise Unsupported(type(s).__name__)

    # -- expressions ---------------------------------------------------------
    def index(self, lst, iv):
        if not isinstance(lst, list):
            raise Stuck('type', 'index of non-list')
        k = as_int(iv)
        if k < 0 or k >= len(lst):
            raise Stuck('index', f'{k} of {len(lst)}')
        if lst[k] is UNINIT_CELL:
            raise Ambiguous('read of a cell fp.empty left uninitialised')
        return lst[k]

    def binop(self, op, a, b, ctx):
        if not is_num(a) or not is_num(b):
            raise Stuck('type', 'arith on non-number')
        if op is ast.Add:
            return op_add(ctx, a, b)
        if op is ast.Sub:
            return op_sub(ctx, a, b)
        if op is ast.Mult:
            return op_mul(ctx, a, b)
        if op is ast.Div:
            return op_div(ctx, a, b)
        if op is ast.Mod:
            return op_mod(ctx, a, b)
        if op is ast.Pow:
            return op_pow(ctx, a, b)
        raise Unsupported(op.__name__)

    def cmp(self, op, a, b):
        if isinstance(op, (ast.Eq, ast.NotEq)):
            r = self.equal(a, b)
            return r if isinstance(op, ast.Eq) else not r
        if not is_num(a) or not is_num(b):
            raise Stuck('type', 'ordering on non-number')
        if isinstance(op, ast.Lt):
            return num_lt(a, b)
        if isinstance(op, ast.Gt):
            return num_lt(b, a)
        if isinstance(op, ast.LtE):
            return num_lt(a, b) or num_eq(a, b)
        if isinstance(op, ast.GtE):
            return num_lt(b, a) or num_eq(a, b)
        raise Unsupported(type(op).__name__)

    def equal(self, a, b):
        if isinstance(a, bool) or isinstance(b, bool):
            if isinstance(a, bool) and isinstance(b, bool):
                return a == b
            raise Stuck('type', '== on mixed types')
        if is_num(a) and is_num(b):
            return num_eq(a, b)
        if isinstance(a, list) and isinstance(b, list) or isinstance(a, tuple) and isinstance(b, tuple):
            return len(a) == len(b) and all(self.equal(x, y) for x, y in zip(a, b))
        raise Stuck('type', '== on mixed types')

    def fold_literal(self, e):
        """(value, integral?, nested?) when `e` is a numeric literal possibly under +/- signs that fold
        to an exact integer literal; None otherwise."""
        if isinstance(e, ast.Constant) and isinstance(e.value, (int, float)) and not isinstance(e.value, bool):
            v = lit_decimal(ast.get_source_segment(self.src, e))
            return v, (is_zero(v) or v.denominator == 1), False
        if isinstance(e, ast.UnaryOp) and isinstance(e.op, ast.UAdd):
            return self.fold_literal(e.operand)
        if isinstance(e, ast.UnaryOp) and isinstance(e.op, ast.USub):
            f = self.fold_literal(e.operand)
            if f is None:
                return None
            v, integral, _ = f
            if is_zero(v):
                return NZERO, True, True
            if integral:
                return op_neg_exact(v), True, True
            return None
        return None

    def fp_name(self, f):
        """'X' for an expression `fp.X`, else None."""
        if isinstance(f, ast.Attribute) and isinstance(f.value, ast.Name) and f.value.id == 'fp':
            return f.attr
        return None

    def expr(self, e, env, ctx):
        self.tick()
        if isinstance(e, ast.Constant):
            if isinstance(e.value, bool):
                return e.value
            if isinstance(e.value, (int, float)):
                seg = ast.get_source_segment(self.src, e)
                return lit_decimal(seg)
            raise Unsupported('constant')
        if isinstance(e, ast.Name):
            if e.id in env:
                return env[e.id]
            if e.id in self.globals:
                return self.globals[e.id]
            raise Stuck('unbound', e.id)
        if isinstance(e, ast.Attribute):
            n = self.fp_name(e)
            if n is not None:
                if n in NAMED:
                    if NAMED[n] is None:
                        return REAL
                    k, a, kw = NAMED[n]
                    return mk_ctx(k, a, dict(kw))
            if isinstance(e.value, ast.Attribute) and self.fp_name(e.value) in ('RM', 'OV'):
                return ('enum', e.attr)
            raise Unsupported(ast.unparse(e))
        if isinstance(e, ast.UnaryOp):
            if isinstance(e.op, ast.Not):
                v = self.expr(e.operand, env, ctx)
                if not isinstance(v, bool):
                    raise Stuck('type', 'not')
                return not v
            if isinstance(e.op, ast.UAdd):
                return self.expr(e.operand, env, ctx)
            if isinstance(e.op, ast.USub):
                # literal folding as the parser documents: the negation of an integer literal (also through
                # nested signs) is the exact negative integer, the negation of a zero literal is negative
                # zero; everything else is the rounded Neg
                f = self.fold_literal(e.operand)
                if f is not None:
                    v, integral, nested = f
                    if is_zero(v):
                        if nested:
                            raise Ambiguous('nested negation of a zero literal')
                        return NZERO
                    if integral:
                        return op_neg_exact(v)
                v = self.expr(e.operand, env, ctx)
                if not is_num(v):
                    raise Stuck('type', 'neg')
                return op_neg(ctx, v)
        if isinstance(e, ast.BinOp):
            a = self.expr(e.left, env, ctx)
            b = self.expr(e.right, env, ctx)
            return self.binop(type(e.op), a, b, ctx)
        if isinstance(e, ast.BoolOp):
            if isinstance(e.op, ast.And):
                for v in e.values:
                    r = self.expr(v, env, ctx)
                    if not isinstance(r, bool):
                        raise Stuck('type', 'and')
                    if not r:
                        return False
                return True
            for v in e.values:
                r = self.expr(v, env, ctx)
                if not isinstance(r, bool):
                    raise Stuck('type', 'or')
                if r:
                    return True
            return False
        if isinstance(e, ast.Compare):
            left = self.expr(e.left, env, ctx)
            for op, rhs in zip(e.ops, e.comparators):
                right = self.expr(rhs, env, ctx)
                if not self.cmp(op, left, right):
                    return False
                left = right
            return True
        if isinstance(e, ast.IfExp):
            c = self.expr(e.test, env, ctx)
            if not isinstance(c, bool):
                raise Stuck('type', 'ifexp')
            return self.expr(e.body if c else e.orelse, env, ctx)
        if isinstance(e, ast.Tuple):
            return tuple(self.expr(x, env, ctx) for x in e.elts)
        if isinstance(e, ast.List):
            return [self.expr(x, env, ctx) for x in e.elts]
        if isinstance(e, ast.ListComp):
            out = []
            self.comp(e, 0, dict(env), ctx, out)
            return out
        if isinstance(e, ast.Subscript):
            base = self.expr(e.value, env, ctx)
            if isinstance(e.slice, ast.Slice):
                if not isinstance(base, list):
                    raise Stuck('type', 'slice of non-list')
                lo = 0 if e.slice.lower is None else as_int(self.expr(e.slice.lower, env, ctx), 'slice')
                hi = len(base) if e.slice.upper is None else as_int(self.expr(e.slice.upper, env, ctx), 'slice')
                if not (0 <= lo <= hi <= len(base)):
                    raise Stuck('slice')
                return base[lo:hi]
            iv = self.expr(e.slice, env, ctx)
            return self.index(base, iv)
        if isinstance(e, ast.Call):
            return self.call_expr(e, env, ctx)
        raise Unsupported(type(e).__name__)

    def comp(self, e, gi, env, ctx, out):
        if gi == len(e.generators):
            out.append(self.expr(e.elt, env, ctx))
            return
        g = e.generators[gi]
        it = self.expr(g.iter, env, ctx)
        if not isinstance(it, list):
            raise Stuck('type', 'comprehension over non-list')
        for x in list(it):
            self.tick()
            self.bind(g.target, x, env)
            self.comp(e, gi + 1, env, ctx, out)

    def call_expr(self, e, env, ctx):
        f = e.func
        n = self.fp_name(f)
        args = e.args
        if n is None and isinstance(f, ast.Name):
            name = f.id
            if name in self.funcs:
                vals = [self.expr(a, env, ctx) for a in args]
                return self.call(name, vals, ctx)
            n = name        # python builtins: abs, len, sum, min, max, any, all, range, zip, enumerate
        if n in CTORS:
            kind, names = CTORS[n]
            vals = [self.expr(a, env, REAL) for a in args]      # evaluated exactly
            a2, kw = [], {}
            for nm, v in zip(names, vals):
                if nm == 'rm':
                    kw['rm'] = v[1]
                elif nm == 'overflow':
                    kw['overflow'] = v[1]
                elif nm == 'signed':
                    a2.append(v)
                else:
                    a2.append(as_int(v, 'ctor arg'))
            try:
                return mk_ctx(kind, tuple(a2), kw)
            except (ValueError, TypeError):
                raise Stuck('ctor')
        vals = [self.expr(a, env, ctx) for a in args]

        def num1():
            if len(vals) != 1 or not is_num(vals[0]):
                raise Stuck('type', n)
            return vals[0]
        if n in ('abs', 'fabs'):
            return op_abs(ctx, num1())
        if n == 'sqrt':
            return op_sqrt(ctx, num1())
        if n in ('floor', 'ceil', 'trunc'):
            return op_rint(ctx, num1(), n)
        if n == 'round':
            return rnd(ctx, num1())
        if n == 'fma':
            if len(vals) != 3 or not all(is_num(v) for v in vals):
                raise Stuck('type', 'fma')
            return op_fma(ctx, *vals)
        if n in ('add', 'sub', 'mul', 'div'):
            if len(vals) != 2 or not all(is_num(v) for v in vals):
                raise Stuck('type', n)
            return {'add': op_add, 'sub': op_sub, 'mul': op_mul, 'div': op_div}[n](ctx, *vals)
        if n == 'neg':
            return op_neg(ctx, num1())
        if n == 'fmod':
            if len(vals) != 2 or not all(is_num(v) for v in vals):
                raise Stuck('type', n)
            return op_fmod(ctx, *vals)
        if n == 'isnan':
            return num1() == NAN
        if n == 'isinf':
            return is_inf(num1())
        if n == 'isfinite':
            v = num1()
            return not (v == NAN or is_inf(v))
        if n == 'signbit':
            v = num1()
            if v == NAN:
                raise Ambiguous('signbit of NaN')
            return neg_of(v)
        if n == 'len':
            if len(vals) != 1 or not isinstance(vals[0], list):
                raise Stuck('type', 'len')
            return from_int(len(vals[0]))
        if n == 'sum':
            if len(vals) != 1 or not isinstance(vals[0], list):
                raise Stuck('type', 'sum')
            xs = vals[0]
            if not xs:
                return PZERO
            for x in xs:
                if not is_num(x):
                    raise Stuck('type', 'sum elt')
            acc = xs[0]
            for x in xs[1:]:
                acc = op_add(ctx, acc, x)
            return acc
        if n in ('min', 'max', 'fmin', 'fmax'):
            want_min = n in ('min', 'fmin')
            if len(vals) == 1:
                if not isinstance(vals[0], list):
                    raise Stuck('type', n)
                if not vals[0]:
                    raise Stuck('empty', n)
                return sel_min(vals[0], want_min)
            return sel_min(vals, want_min)
        if n in ('any', 'all'):
            if len(vals) != 1 or not isinstance(vals[0], list) or not all(isinstance(b, bool) for b in vals[0]):
                raise Stuck('type', n)
            return any(vals[0]) if n == 'any' else all(vals[0])
        if n == 'range':
            iv = [as_int(v, 'range') for v in vals]
            if len(iv) == 3 and iv[2] == 0:
                raise Stuck('range step')
            return [from_int(i) for i in range(*iv)]
        if n == 'zip':
            if not all(isinstance(v, list) for v in vals):
                raise Stuck('type', 'zip')
            if len({len(v) for v in vals}) > 1:
                raise Ambiguous('zip of unequal lengths is undefined')
            return [tuple(t) for t in zip(*vals)]
        if n == 'empty':
            # fp.empty(d1, ..., dn): an n-d list of fresh cells (derived-semantics.rst, "Empty"); every row its own list
            dims = [as_int(v, 'empty') for v in vals]
            if not dims or any(d < 0 for d in dims):
                raise Ambiguous('fp.empty without / with negative dimensions')

            def mk(ds):
                self.tick()
                return [UNINIT_CELL for _ in range(ds[0])] if len(ds) == 1 else [mk(ds[1:]) for _ in range(ds[0])]
            return mk(dims)
        if n == 'enumerate':
            if len(vals) != 1 or not isinstance(vals[0], list):
                raise Stuck('type', 'enumerate')
            return [(from_int(i), x) for i, x in enumerate(vals[0])]
        if n in ('fst', 'snd'):
            if len(vals) != 1 or not isinstance(vals[0], tuple) or len(vals[0]) != 2:
                raise Ambiguous('fst/snd on a non-pair: documents disagree')
            return vals[0][0 if n == 'fst' else 1]
        if n == 'rational':
            p, q = (as_int(v) for v in vals)
            if q == 0:
                raise Stuck('rational')
            v = Fraction(p, q)
            return PZERO if v == 0 else v
        raise Unsupported(f'call {ast.unparse(f)}')


def to_denotation(v):
    """Converts a Python argument (int/float/Fraction/list/tuple/bool) to the evaluator's values."""
    from .denote import den
    if isinstance(v, list):
        return [to_denotation(x) for x in v]
    if isinstance(v, tuple):
        return tuple(to_denotation(x) for x in v)
    return den(v)


class _Uninit:
    def __repr__(self):
        return 'UNINIT_CELL'


UNINIT_CELL = _Uninit()


def result_den(v):
    """Structure comparable with vlib.denote.deep_den of the implementation's result."""
    if v is UNINIT_CELL:
        raise Ambiguous('an uninitialised cell is returned')
    if isinstance(v, list):
        return ('L',) + tuple(result_den(x) for x in v)
    if isinstance(v, tuple):
        return ('T',) + tuple(result_den(x) for x in v)
    return v
