"""
Program generators for C18 built on vlib.progen (nothing in progen is changed).

IsoGen   -- programs whose `main` takes nested argument structures and mutates / aliases / returns them:
            parameter kinds  R real, L list[real], M list[list[real]] (rows), P tuple(list, real),
            Q tuple(list, list), T tuple(real, real).
CapGen   -- progen programs that additionally read captured module-level constants (lists, rows, tuples
            holding lists, tuples of reals, scalars); in the `mutate` profile `main` (and only `main`)
            also aliases the captured lists and writes through the alias.

All literals of module-level constants are dyadic so that Python's float and the decimal spelling agree.
"""

from __future__ import annotations

from dataclasses import dataclass, field
from fractions import Fraction

from . import progen
from .progen import Chooser, Gen, Profile, Program, _Fn

DYADIC = ['1.0', '2.0', '0.5', '1.5', '2.75', '3.25', '0.125', '100.0', '-2.25', '7.0', '0.0', '6.0', '-1.0', '3.0']


# ---------------------------------------------------------------------------
# (a) isolation programs

@dataclass
class IsoProgram:
    src: str
    main: str
    params: list            # [(name, kind)]
    shape: dict             # name -> minimum shape: L: n ; M: (rows, cols) ; P: n ; Q: (n1, n2)
    features: set = field(default_factory=set)


def base_profile(name='c18'):
    """progen.Profile restricted to the productions C18 was built against: productions added to progen later
    (their evaluation is C04's business) stay off, so the generated programs do not drift."""
    p = Profile(name=name)
    if hasattr(p, 'modpow'):
        p.modpow = False
    return p


def iso_profile():
    p = base_profile('iso')
    p.max_helpers = 1
    p.max_stmts = 5
    p.max_depth = 2
    p.expr_depth = 2
    p.early_return = False
    p.asserts = False
    p.while_loops = False
    p.computed_ctx_args = False
    return p


class IsoGen:
    def __init__(self, ch: Chooser):
        self.ch = ch
        self.g = Gen(ch, iso_profile())
        self.features = set()

    def program(self) -> IsoProgram:
        ch, g = self.ch, self.g
        # optional helper (progen: may mutate its list parameter)
        if ch.bool(0.5):
            h = g.function('h0', False)
            g.helpers.append(h)
        nparams = ch.int(1, 3)
        kinds = [ch.weighted([(5, 'L'), (4, 'M'), (3, 'P'), (3, 'Q'), (2, 'R'), (1, 'T')]) for _ in range(nparams)]
        if all(k in ('R', 'T') for k in kinds):
            kinds[0] = 'L'
        params, shape = [], {}
        for i, k in enumerate(kinds):
            n = f'a{i}'
            params.append((n, k))
            if k == 'L':
                shape[n] = ch.int(1, 3)
            elif k == 'M':
                shape[n] = (ch.int(1, 3), ch.int(1, 2))
            elif k == 'P':
                shape[n] = ch.int(1, 3)
            elif k == 'Q':
                shape[n] = (ch.int(1, 2), ch.int(1, 2))
        flat = [(n, k) for n, k in params if k in ('R', 'L', 'T')]
        fn = _Fn(g, 'main', flat, True, True)
        for n, k in params:
            if k == 'L':
                fn.len_lb[n] = shape[n]
        self.fn = fn
        self.rows = {n: shape[n] for n, k in params if k == 'M'}        # name -> (rows, cols)
        self.pairs = {n: k for n, k in params if k in ('P', 'Q')}
        self.shape = shape
        self.param_lists = [n for n, k in params if k == 'L']           # names that ARE parameter lists (or aliases of parts)
        self.tlists = {}        # lists of pairs made by zip / enumerate: name -> length lower bound
        out = []
        ind = '    '
        # expose nested lists as ordinary list variables (aliases of argument structure)
        for n, k in params:
            if k in ('P', 'Q') and ch.bool(0.8):
                self.expose_pair(n, ind, out)
            if k == 'M' and ch.bool(0.6):
                self.expose_row(n, ind, out)
        nst = ch.int(2, 6)
        for _ in range(nst):
            self.stmt(ind, out)
        out.append(f'{ind}return {self.ret_expr()}')
        sig = ', '.join(n for n, _ in params)
        g.lines += ['@fp.fpy', f'def main({sig}):'] + out + ['']
        feats = set(g.features) | self.features
        return IsoProgram(src='\n'.join(g.lines) + '\n', main='main', params=params, shape=shape, features=feats)

    # -- helpers ---------------------------------------------------------------
    def expose_pair(self, n, ind, out):
        fn = self.fn
        a, b = fn.fresh('p'), fn.fresh('q')
        out.append(f'{ind}{a}, {b} = {n}')
        if self.pairs[n] == 'P':
            fn.env[a] = 'L'
            fn.len_lb[a] = self.shape[n]
            fn.env[b] = 'R'
        else:
            fn.env[a] = 'L'
            fn.env[b] = 'L'
            fn.len_lb[a], fn.len_lb[b] = self.shape[n]
        self.features.add('tuple-holding-list-destructured')

    def expose_row(self, n, ind, out):
        fn = self.fn
        r, c = self.rows[n]
        v = fn.fresh('r')
        out.append(f'{ind}{v} = {n}[{self.ch.int(0, r - 1)}]')
        fn.env[v] = 'L'
        fn.len_lb[v] = c
        self.features.add('row-alias')

    def stmt(self, ind, out):
        ch, g, fn = self.ch, self.g, self.fn
        opts = [(10, 'gen'), (6, 'store'), (3, 'loopstore'), (3, 'alias'), (6, 'fresh'), (3, 'freshT')]
        if any(lb > 0 for lb in self.tlists.values()):
            opts += [(5, 'storeT')]
        if self.rows:
            opts += [(6, 'store2'), (3, 'rowset'), (3, 'exposerow')]
        if self.pairs:
            opts += [(2, 'exposepair')]
        k = ch.weighted(opts)
        if k == 'gen':
            g.stmt(fn, ind, 1, out, False, 0)
        elif k == 'store':
            ls = [l for l in g.vars_of(fn, 'L') if fn.len_lb.get(l, 0) > 0]
            if not ls:
                return
            l = ch.choice(ls)
            out.append(f'{ind}{l}[{g.index_of(fn, l)}] = {g.expr_R(fn, 2)}')
            self.features.add('list-store')
        elif k == 'loopstore':
            ls = [l for l in g.vars_of(fn, 'L') if fn.len_lb.get(l, 0) > 0]
            if not ls:
                return
            l = ch.choice(ls)
            i = fn.fresh('i')
            n = ch.int(1, fn.len_lb[l])
            out.append(f'{ind}for {i} in range({n}):')
            fn.env[i] = 'R'
            out.append(f'{ind}    {l}[{i}] = {g.expr_R(fn, 1)}')
            del fn.env[i]
            self.features.add('loop-store')
        elif k == 'alias':
            ls = g.vars_of(fn, 'L')
            if not ls:
                return
            l = ch.choice(ls)
            v = fn.fresh('ys')
            form = ch.int(0, 2)
            if form == 0:
                out.append(f'{ind}{v} = {l}')
                fn.len_lb[v] = fn.len_lb.get(l, 0)
                self.features.add('list-alias')
            elif form == 1:
                out.append(f'{ind}{v} = {l}[:]')
                fn.len_lb[v] = fn.len_lb.get(l, 0)
                self.features.add('slice')
            else:
                lb = fn.len_lb.get(l, 0)
                lo = ch.int(0, lb)
                out.append(f'{ind}{v} = {l}[{lo}:]')
                fn.len_lb[v] = lb - lo
                self.features.add('slice')
            fn.env[v] = 'L'
        elif k == 'fresh':
            # a list the evaluation itself creates (range / constant literal / comprehension / slice), bound to a name:
            # later stores and returns act on an object that must be fresh on every evaluation
            v = fn.fresh('fs')
            form = ch.weighted([(5, 'range1'), (3, 'range2'), (2, 'range3'), (3, 'literal'), (2, 'comp'), (2, 'slice')])
            ls = g.vars_of(fn, 'L')
            if form == 'slice' and not ls:
                form = 'range1'
            if form == 'range1':
                n = ch.int(1, 4)
                out.append(f'{ind}{v} = range({n})')
                lb = n
            elif form == 'range2':
                lo = ch.int(0, 2)
                n = ch.int(1, 4)
                out.append(f'{ind}{v} = range({lo}, {lo + n})')
                lb = n
            elif form == 'range3':
                n = ch.int(1, 3)
                out.append(f'{ind}{v} = range({2 * n}, 0, -2)')
                lb = n
            elif form == 'literal':
                n = ch.int(1, 4)
                out.append(f'{ind}{v} = [' + ', '.join(ch.choice(['0', '1', '2', '3', '0.5', '1.5', '7', '0.1', '0.3']) for _ in range(n)) + ']')
                lb = n
            elif form == 'comp':
                n = ch.int(1, 4)
                e = fn.fresh('e')
                out.append(f'{ind}{v} = [{e} for {e} in range({n})]')
                lb = n
            else:
                l = ch.choice(ls)
                b = fn.len_lb.get(l, 0)
                lo = ch.int(0, b)
                out.append(f'{ind}{v} = {l}[{lo}:{b}]')
                lb = b - lo
            fn.env[v] = 'L'
            fn.len_lb[v] = lb
            self.features.add('fresh-container:' + form)
        elif k == 'freshT':
            ls = g.vars_of(fn, 'L')
            v = fn.fresh('zs')
            if ls and ch.bool(0.7):
                l = ch.choice(ls)
                out.append(f'{ind}{v} = ' + (f'zip({l}, {l})' if ch.bool() else f'enumerate({l})'))
                self.tlists[v] = fn.len_lb.get(l, 0)
            else:
                n = ch.int(1, 3)
                out.append(f'{ind}{v} = ' + (f'zip(range({n}), range({n}))' if ch.bool() else f'enumerate(range({n}))'))
                self.tlists[v] = n
            self.features.add('fresh-container:pairs')
        elif k == 'storeT':
            cands = sorted(n for n, lb in self.tlists.items() if lb > 0)
            v = ch.choice(cands)
            out.append(f'{ind}{v}[{ch.int(0, self.tlists[v] - 1)}] = ({g.expr_R(fn, 1)}, {g.expr_R(fn, 1)})')
            self.features.add('pair-list-store')
        elif k == 'store2':
            n = ch.choice(sorted(self.rows))
            r, c = self.rows[n]
            out.append(f'{ind}{n}[{ch.int(0, r - 1)}][{ch.int(0, c - 1)}] = {g.expr_R(fn, 2)}')
            self.features.add('nested-store')
        elif k == 'rowset':
            n = ch.choice(sorted(self.rows))
            r, c = self.rows[n]
            cands = [l for l in g.vars_of(fn, 'L') if fn.len_lb.get(l, 0) >= c]
            if cands and ch.bool(0.7):
                rhs = ch.choice(cands)
                self.features.add('row-replaced-by-alias')
            else:
                rhs = '[' + ', '.join(g.expr_R(fn, 1) for _ in range(c)) + ']'
            out.append(f'{ind}{n}[{ch.int(0, r - 1)}] = {rhs}')
            self.features.add('row-store')
        elif k == 'exposerow':
            self.expose_row(ch.choice(sorted(self.rows)), ind, out)
        elif k == 'exposepair':
            self.expose_pair(ch.choice(sorted(self.pairs)), ind, out)

    def ret_component(self):
        ch, g, fn = self.ch, self.g, self.fn
        ls = g.vars_of(fn, 'L')
        opts = [(3, 'real'), (2, 'range-sum'), (2, 'range-list')]
        if self.tlists:
            opts += [(8, 'pairs')]
        if ls:
            opts += [(6, 'list'), (3, 'slice'), (4, 'twice-tuple'), (3, 'twice-list'), (2, 'comp')]
        if self.rows:
            opts += [(4, 'rows'), (3, 'row'), (2, 'rows+row')]
        if self.pairs:
            opts += [(4, 'pair'), (2, 'pair+list')]
        k = ch.weighted(opts)
        if k == 'real':
            return g.expr_R(fn, 2)
        if k == 'range-sum':
            # observes what an equal `range` evaluates to NOW
            e = fn.fresh('e')
            return f'sum([{e} for {e} in range({ch.int(1, 4)})])'
        if k == 'range-list':
            self.features.add('returns-range')
            lo = ch.int(0, 2)
            return ch.choice([f'range({ch.int(1, 4)})', f'range({lo}, {lo + ch.int(1, 4)})', f'range({2 * ch.int(1, 3)}, 0, -2)'])
        if k == 'pairs':
            self.features.add('returns-pair-list')
            return ch.choice(sorted(self.tlists))
        if k == 'list':
            self.features.add('returns-list-var')
            return ch.choice(ls)
        if k == 'slice':
            l = ch.choice(ls)
            self.features.add('returns-slice')
            return f'{l}[:]' if ch.bool() else f'{l}[0:{fn.len_lb.get(l, 0)}]'
        if k == 'twice-tuple':
            l = ch.choice(ls)
            self.features.add('returns-same-list-twice')
            return f'({l}, {l})'
        if k == 'twice-list':
            l = ch.choice(ls)
            self.features.add('returns-same-list-twice')
            return f'[{l}, {l}]'
        if k == 'comp':
            l = ch.choice(ls)
            return f'[e for e in {l}]'
        if k == 'rows':
            self.features.add('returns-rows')
            return ch.choice(sorted(self.rows))
        if k == 'row':
            n = ch.choice(sorted(self.rows))
            self.features.add('returns-row')
            return f'{n}[{ch.int(0, self.rows[n][0] - 1)}]'
        if k == 'rows+row':
            n = ch.choice(sorted(self.rows))
            self.features.add('returns-rows')
            return f'({n}, {n}[{ch.int(0, self.rows[n][0] - 1)}])'
        if k == 'pair':
            self.features.add('returns-tuple-param')
            return ch.choice(sorted(self.pairs))
        if k == 'pair+list':
            n = ch.choice(sorted(self.pairs))
            self.features.add('returns-tuple-param')
            return f'({n}, {ch.choice(ls) if ls else g.expr_R(fn, 1)})'
        raise ValueError(k)

    def ret_expr(self):
        n = self.ch.weighted([(5, 1), (4, 2), (2, 3)])
        if n == 1:
            return self.ret_component()
        return '(' + ', '.join(self.ret_component() for _ in range(n)) + ')'


def gen_iso_program(ch: Chooser) -> IsoProgram:
    return IsoGen(ch).program()


def gen_iso_inputs(ch: Chooser, prog: IsoProgram, number_objects=True):
    """Argument tuple typed to the signature; list lengths = minimum + 0..2.  With `number_objects`
    some numbers are passed as fpy2 Float / RealFloat objects (built by the caller from ('F', x) / ('RF', x) markers)."""
    pool = progen.R_POOL

    def num():
        v = ch.choice(pool)
        if number_objects and isinstance(v, (int, float)) and not isinstance(v, bool) and ch.bool(0.15):
            import math
            if isinstance(v, float) and (math.isnan(v) or math.isinf(v)):
                return ('F', v)
            return ('F', v) if ch.bool(0.6) else ('RF', v)
        return v

    def lst(n):
        k = n + ch.int(0, 2)
        mode = ch.weighted([(6, 'mixed'), (2, 'all-Float'), (1, 'all-Fraction')]) if number_objects else 'mixed'
        if mode == 'all-Float':
            # every element is already an FPy value: a conversion that rebuilds containers "only when needed" would pass it through
            return [('F', float(v)) for v in (ch.choice(pool) for _ in range(k))]
        if mode == 'all-Fraction':
            return [Fraction(ch.int(-9, 9), ch.choice([1, 2, 3, 7, 8])) for _ in range(k)]
        return [num() for _ in range(k)]

    args = []
    for n, k in prog.params:
        if k == 'R':
            args.append(num())
        elif k == 'T':
            args.append((num(), num()))
        elif k == 'L':
            args.append(lst(prog.shape[n]))
        elif k == 'M':
            r, c = prog.shape[n]
            args.append([lst(c) for _ in range(r + ch.int(0, 1))])
        elif k == 'P':
            args.append((lst(prog.shape[n]), num()))
        elif k == 'Q':
            a, b = prog.shape[n]
            args.append((lst(a), lst(b)))
    return args


# ---------------------------------------------------------------------------
# (b) programs with captured module-level constants

class CapGen(Gen):
    """progen.Gen + captured globals.  mode: 'read' (never written) | 'mutate' (main aliases and writes)."""

    def __init__(self, ch, profile=None, mode='read'):
        super().__init__(ch, profile)
        self.mode = mode
        self.consts = []            # (name, kind, text, shape)
        n = ch.int(2, 4)
        kinds = ['L'] + [ch.choice(['L', 'M', 'P', 'TT', 'S', 'L']) for _ in range(n - 1)]
        for i, k in enumerate(kinds):
            name = f'G{i}'
            if k == 'L':
                ln = ch.int(1, 4)
                self.consts.append((name, 'L', self._list(ln), ln))
            elif k == 'M':
                r, c = ch.int(1, 3), ch.int(1, 2)
                self.consts.append((name, 'M', '[' + ', '.join(self._list(c) for _ in range(r)) + ']', (r, c)))
            elif k == 'P':
                ln = ch.int(1, 3)
                self.consts.append((name, 'P', f'({self._list(ln)}, {ch.choice(DYADIC)})', ln))
            elif k == 'TT':
                self.consts.append((name, 'TT', f'({ch.choice(DYADIC)}, {ch.choice(DYADIC)})', None))
            else:
                self.consts.append((name, 'S', ch.choice(DYADIC), None))
        self.used = set()

    def _list(self, n):
        return '[' + ', '.join(self.ch.choice(DYADIC) for _ in range(n)) + ']'

    def _allowed(self, fn):
        # in the mutate profile only `main` touches the constants, so that "the captured list as `main` sees it"
        # is unambiguous (each function owns its captures)
        return self.mode == 'read' or fn.is_main

    def expr_R(self, fn, d):
        ch = self.ch
        if self._allowed(fn) and ch.bool(0.22):
            name, kind, _, shape = ch.choice(self.consts)
            self.used.add(name)
            self.features.add('reads-capture')
            if kind == 'L':
                return ch.choice([f'{name}[{ch.int(0, shape - 1)}]', f'sum({name})', f'len({name})', f'max({name})'])
            if kind == 'M':
                r, c = shape
                return f'{name}[{ch.int(0, r - 1)}][{ch.int(0, c - 1)}]'
            if kind == 'P':
                return ch.choice([f'fp.snd({name})', f'fp.fst({name})[{ch.int(0, shape - 1)}]'])
            if kind == 'TT':
                return f'fp.{ch.choice(["fst", "snd"])}({name})'
            return name
        return super().expr_R(fn, d)

    def expr_L_lb(self, fn, d):
        ch = self.ch
        lists = [c for c in self.consts if c[1] in ('L', 'M', 'P')]
        if lists and self._allowed(fn) and ch.bool(0.3):
            name, kind, _, shape = ch.choice(lists)
            self.used.add(name)
            self.features.add('reads-capture')
            if kind == 'L':
                base, lb = name, shape
            elif kind == 'M':
                base, lb = f'{name}[{ch.int(0, shape[0] - 1)}]', shape[1]
            else:
                base, lb = f'fp.fst({name})', shape
            if self.mode == 'mutate' and ch.bool(0.6):
                self.features.add('aliases-capture')
                return base, lb
            form = ch.int(0, 2)
            if form == 0:
                return f'{base}[:]', lb
            if form == 1:
                v = fn.fresh('e')
                return f'[{v} for {v} in {base}]', lb
            lo = ch.int(0, lb)
            return f'{base}[{lo}:]', lb - lo
        return super().expr_L_lb(fn, d)

    def stmt(self, fn, ind, depth, out, in_loop, in_with):
        ch = self.ch
        if self.mode == 'mutate' and fn.is_main and ch.bool(0.12):
            lists = [c for c in self.consts if c[1] in ('L', 'M')]
            name, kind, _, shape = ch.choice(lists)
            self.used.add(name)
            if kind == 'L':
                out.append(f'{ind}{name}[{ch.int(0, shape - 1)}] = {self.expr_R(fn, 2)}')
            else:
                out.append(f'{ind}{name}[{ch.int(0, shape[0] - 1)}][{ch.int(0, shape[1] - 1)}] = {self.expr_R(fn, 2)}')
            self.features.add('writes-capture-directly')
            return False
        return super().stmt(fn, ind, depth, out, in_loop, in_with)

    def program(self) -> Program:
        prog = super().program()
        head = [f'{name} = {text}' for name, kind, text, shape in self.consts]
        src = '\n'.join(head) + '\n\n' + prog.src
        feats = set(prog.features) | {'captures'}
        if self.mode == 'mutate':
            feats.add('capture-mutating-profile')
        return Program(src=src, main=prog.main, params=prog.params, min_len=prog.min_len, features=feats,
                       helpers=prog.helpers, ret_type=prog.ret_type)


def gen_cap_program(ch: Chooser, mode: str, profile: Profile | None = None) -> Program:
    p = profile or base_profile()
    if mode == 'mutate':
        p.max_helpers = min(p.max_helpers, 1)
    return CapGen(ch, p, mode).program()
