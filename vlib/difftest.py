"""
Differential testing of program transforms:  f(*args, ctx=c)  versus  T(f)(*args, ctx=c).

Shared by the transform-preservation checks (C07 simplify, C08 loop restructuring, C09 inlining,
C10 rounding-lowering).  Nothing here knows about a particular transform.

    out = call(fn, args, ctx_text)                  # ('value', denotation) | ('raise', Exc, msg) | ('timeout',)
    st  = transform(fn, T)                          # ('ok', Function) | ('refuses', Exc, msg) | ('timeout',)
    v   = verdict(orig_out, new_out)                # 'same' | 'out-of-scope' | 'inconclusive' | ('raises', Exc, msg) | ('differs', exp, got)
    for idx, v, o, n in diff_inputs(f, g, inputs):  # inputs: [(args, ctx_text)]; `orig` outcomes may be passed in to avoid re-running f
    ast_changed(f, g)                               # not f.ast.is_equiv(g.ast)
    encode_args / decode_args                       # JSON-able argument tuples (ints, floats incl. specials, Fractions, bools, lists, tuples)

Conventions (from DESIGN §3 C07-C10):
  * comparison is vlib.denote.deep_den equality: sign of zero, NaN == NaN, inf, bools, list/tuple structure;
  * only inputs on which the ORIGINAL returns are in scope; T(f) raising there is a violation;
  * a transform raising at transform time is `refuses` (counted by the caller, not a violation of a preservation property);
  * the SIGALRM watchdog only ever yields 'timeout' -> inconclusive, never a violation.  Time is not an oracle.
Arguments are deep-copied before every call, so a program mutating its list arguments cannot leak into the other side.
"""

from __future__ import annotations

import copy
import signal
from contextlib import contextmanager
from fractions import Fraction

import fpy2 as fp

from vlib.denote import deep_den


class WatchdogExpired(BaseException):
    """BaseException so that `except Exception` inside the code under test cannot swallow it."""


def _on_alarm(signum, frame):
    raise WatchdogExpired()


@contextmanager
def watchdog(seconds: int):
    """SIGALRM guard (main thread of a worker process only).  Raises WatchdogExpired inside the block."""
    old = signal.signal(signal.SIGALRM, _on_alarm)
    signal.alarm(int(seconds))
    try:
        yield
    finally:
        signal.alarm(0)
        signal.signal(signal.SIGALRM, old)


_CTX_CACHE: dict = {}


def ctx_obj(text):
    """Context object for a caller-context text such as 'fp.FP32' (None -> None)."""
    if text is None:
        return None
    if not isinstance(text, str):
        return text
    if text not in _CTX_CACHE:
        _CTX_CACHE[text] = eval(text, {'fp': fp})
    return _CTX_CACHE[text]


def call(fn, args, ctx=None, timeout: int = 20):
    """Run `fn(*args, ctx=ctx)` on a deep copy of args.
    ('value', deep_den(result)) | ('raise', ExcName, msg) | ('timeout',)"""
    a = copy.deepcopy(list(args))
    try:
        with watchdog(timeout):
            r = fn(*a, ctx=ctx_obj(ctx))
        return ('value', deep_den(r))
    except WatchdogExpired:
        return ('timeout',)
    except RecursionError:
        return ('raise', 'RecursionError', '')
    except Exception as e:      # the exception type is data for the caller's buckets
        return ('raise', type(e).__name__, str(e)[:200])


def transform(fn, T, timeout: int = 60):
    """Apply `T: Function -> Function` under the watchdog.
    ('ok', Function) | ('refuses', ExcName, msg) | ('timeout',)"""
    try:
        with watchdog(timeout):
            g = T(fn)
        return ('ok', g)
    except WatchdogExpired:
        return ('timeout',)
    except RecursionError:
        return ('refuses', 'RecursionError', '')
    except Exception as e:
        return ('refuses', type(e).__name__, str(e)[:200])


def verdict(orig, new):
    """Compare two `call` outcomes.
    'out-of-scope' (original did not return) | 'inconclusive' (a watchdog fired) | 'same'
    | ('raises', Exc, msg) | ('differs', expected_den, got_den)"""
    if orig[0] == 'timeout':
        return 'inconclusive'
    if orig[0] != 'value':
        return 'out-of-scope'
    if new[0] == 'timeout':
        return 'inconclusive'
    if new[0] == 'raise':
        return ('raises', new[1], new[2])
    if new[1] == orig[1]:
        return 'same'
    return ('differs', orig[1], new[1])


def diff_inputs(f, g, inputs, orig=None, timeout: int = 20):
    """Yield (index, verdict, orig_outcome, new_outcome) for every (args, ctx_text) in `inputs`.
    `orig`: optional list of precomputed outcomes of f (same order).  g is not run where f did not return."""
    for idx, (args, ctx) in enumerate(inputs):
        o = orig[idx] if orig is not None else call(f, args, ctx, timeout)
        if o[0] != 'value':
            yield idx, verdict(o, o), o, None
            continue
        n = call(g, args, ctx, timeout)
        yield idx, verdict(o, n), o, n


def ast_changed(f, g) -> bool:
    """True when the transform actually rewrote something (structural, not identity)."""
    return not f.ast.is_equiv(g.ast)


def zero_sign_only(exp, got) -> bool:
    """Do two denotations differ only in signs of zeros?"""
    def norm(d):
        if isinstance(d, tuple):
            return tuple(norm(x) for x in d)
        return '0' if d in ('+0', '-0') else d
    return exp != got and norm(exp) == norm(got)


# ---------------------------------------------------------------------------
# JSON-able arguments

def encode_args(args):
    def enc(a):
        if isinstance(a, list):
            return {'L': [enc(x) for x in a]}
        if isinstance(a, tuple):
            return {'T': [enc(x) for x in a]}
        if isinstance(a, bool):
            return {'b': a}
        if isinstance(a, Fraction):
            return {'q': f'{a.numerator}/{a.denominator}'}
        if isinstance(a, float):
            return {'f': a.hex() if a == a and a not in (float('inf'), float('-inf')) else repr(a)}
        return {'i': a}
    return [enc(a) for a in args]


def decode_args(enc):
    def dec(a):
        if 'L' in a:
            return [dec(x) for x in a['L']]
        if 'T' in a:
            return tuple(dec(x) for x in a['T'])
        if 'b' in a:
            return a['b']
        if 'q' in a:
            return Fraction(a['q'])
        if 'f' in a:
            s = a['f']
            return float.fromhex(s) if s.startswith(('0x', '-0x')) else float(s)
        return a['i']
    return [dec(a) for a in enc]
