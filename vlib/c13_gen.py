"""
C13 program generator: vlib.progen's grammar extended with productions that stress the places where a
static analysis has to MERGE or to see through SHARING:

  * nested lists `list[list[fp.Real]]` (type 'LL'), aliases through binding, indexing (`row = xss[i]`),
    slicing (rows shared), construction (`[xs, ys]`), tuple packing/unpacking, iteration (`for row in xss`,
    zip, enumerate), comprehension variables, conditional expressions; row replacement and element
    stores through such aliases;
  * value-class arithmetic (x / 0, inf - inf, 0 * x, abs, min/max, logb) under `fp.REAL` and narrow
    contexts, branches whose condition tests the class of a variable (isnan/isinf/isfinite/== 0/!= 0/
    orderings, negations, conjunctions, elif ladders), and loops that widen a narrow class;
  * constants: literal arithmetic under `with` contexts, constants redefined in loops and branches;
  * sizes: lists whose length differs between the arms of a branch or shrinks in a loop, slices with
    constant and affine bounds, ranges, zip/enumerate/comprehension length links.

Plus `template_cases`: small parameterised scenarios, one per merge/alias mechanism.

Everything goes through a progen.Chooser, so generation is a pure function of the seed.
"""

from __future__ import annotations

from dataclasses import dataclass, field

from vlib import progen
from vlib.progen import Chooser, Gen, Profile, _Fn

ANN = {'R': 'fp.Real', 'L': 'list[fp.Real]', 'B': 'bool', 'T': 'tuple[fp.Real, fp.Real]',
       'LL': 'list[list[fp.Real]]'}

CLASS_LITS = ['0', '1', '0.5', '-1', '2', '-0.0', '3']


@dataclass
class FuncInfo:
    name: str
    params: list
    min_len: dict
    min_row: dict
    ret_type: str


@dataclass
class Module:
    src: str
    funcs: list
    features: set = field(default_factory=set)


class Gen13(Gen):
    """mode: 'alias' | 'class' | 'const' | 'size' | 'mix' — biases the extra productions."""

    def __init__(self, ch: Chooser, profile: Profile, mode='mix'):
        super().__init__(ch, profile)
        self.mode = mode
        self.row_lb = {}         # LL var -> lower bound of every row's length (monotone, conservative)
        self.funcs = []

    # -- bookkeeping --------------------------------------------------------
    def lower_rows(self, lb):
        for k in list(self.row_lb):
            self.row_lb[k] = min(self.row_lb[k], lb)

    def ll_vars(self, fn):
        return self.vars_of(fn, 'LL')

    def expr(self, fn, ty, d):
        if ty == 'LL':
            return self.expr_LL(fn)[0]
        return super().expr(fn, ty, d)

    def small_R(self, fn):
        return self.expr_R(fn, self.ch.int(0, 1))

    def list_lit(self, fn, n):
        return '[' + ', '.join(self.small_R(fn) for _ in range(n)) + ']'

    def expr_LL(self, fn):
        """(text, outer lb, row lb)"""
        ch = self.ch
        lls = self.ll_vars(fn)
        ls = self.vars_of(fn, 'L')
        opts = [(3, 'lit')]
        if lls:
            opts += [(3, 'var'), (5, 'slice'), (3, 'comp-rows'), (2, 'comp-copy')]
        if ls:
            opts += [(4, 'construct'), (2, 'repeat')]
        k = ch.weighted(opts)
        if k == 'lit':
            n = ch.int(0, 3)
            m = ch.int(0, 3)
            uneven = ch.bool(0.3)
            rows = []
            rl = m
            for _ in range(n):
                r = ch.int(0, 3) if uneven else m
                rl = min(rl, r)
                rows.append(self.list_lit(fn, r))
            return '[' + ', '.join(rows) + ']', n, (rl if n else 0)
        if k == 'var':
            v = ch.choice(lls)
            self.features.add('alias:binding')
            return v, fn.len_lb.get(v, 0), self.row_lb.get(v, 0)
        if k == 'slice':
            v = ch.choice(lls)
            lb = fn.len_lb.get(v, 0)
            lo = ch.int(0, lb)
            hi = ch.int(lo, lb)
            form = ch.int(0, 3)
            self.features.add('alias:slicing')
            if form == 0:
                return f'{v}[{lo}:{hi}]', hi - lo, self.row_lb.get(v, 0)
            if form == 1:
                return f'{v}[{lo}:]', lb - lo, self.row_lb.get(v, 0)
            if form == 2:
                return f'{v}[:{hi}]', hi, self.row_lb.get(v, 0)
            return f'{v}[:]', lb, self.row_lb.get(v, 0)
        if k == 'comp-rows':
            v = ch.choice(lls)
            r = fn.fresh('r')
            self.features.add('alias:comprehension')
            return f'[{r} for {r} in {v}]', fn.len_lb.get(v, 0), self.row_lb.get(v, 0)
        if k == 'comp-copy':
            v = ch.choice(lls)
            r = fn.fresh('r')
            form = ch.int(0, 2)
            if form == 0:
                return f'[{r}[:] for {r} in {v}]', fn.len_lb.get(v, 0), self.row_lb.get(v, 0)
            if form == 1:
                e = fn.fresh('e')
                return f'[[{e} for {e} in {r}] for {r} in {v}]', fn.len_lb.get(v, 0), self.row_lb.get(v, 0)
            i = fn.fresh('i')
            return f'[{r} for {i}, {r} in enumerate({v})]', fn.len_lb.get(v, 0), self.row_lb.get(v, 0)
        if k == 'construct':
            n = ch.int(1, 3)
            items = []
            rl = 99
            for _ in range(n):
                if ch.bool(0.75):
                    l = ch.choice(ls)
                    items.append(l)
                    rl = min(rl, fn.len_lb.get(l, 0))
                else:
                    m = ch.int(0, 3)
                    items.append(self.list_lit(fn, m))
                    rl = min(rl, m)
            self.features.add('alias:construction')
            return '[' + ', '.join(items) + ']', n, rl
        if k == 'repeat':
            l = ch.choice(ls)
            n = ch.int(0, 3)
            u = fn.fresh('u')
            self.features.add('alias:construction')
            return f'[{l} for {u} in range({n})]', n, fn.len_lb.get(l, 0)
        raise ValueError(k)

    # -- value-class flavoured real expressions --------------------------------
    def expr_R(self, fn, d):
        ch = self.ch
        if d > 0 and self.mode in ('class', 'mix') and ch.bool(0.3 if self.mode == 'class' else 0.12):
            vs = self.vars_of(fn, 'R')
            a = ch.choice(vs) if vs and ch.bool(0.8) else ch.choice(CLASS_LITS)
            b = ch.choice(vs) if vs and ch.bool(0.6) else ch.choice(CLASS_LITS)
            k = ch.int(0, 13)
            self.features.add('class-arith')
            if k == 0:
                return f'({a} / 0)'
            if k == 1:
                return f'({a} - {a})'
            if k == 2:
                return f'(0 * {a})'
            if k == 3:
                return f'({a} * {b})'
            if k == 4:
                return f'abs({a})'
            if k == 5:
                return f'(-{a})'
            if k == 6:
                return f'({a} + {b})'
            if k == 7:
                return f'{ch.choice(["min", "max"])}({a}, {b})'
            if k == 8:
                return f'fp.logb({a})'
            if k == 9:
                return ch.choice(['fp.inf()', 'fp.nan()', '(-fp.inf())'])
            if k == 10:
                return f'({a} if {self.class_cond(fn, 1)} else {b})'
            if k == 11:
                # a bounded exponent: an exact power with a huge exponent is one uninterruptible big-integer operation
                return f'(2 ** max(min({a}, 8), -8))'
            if k == 12:
                return f'fp.round({a})'
            if ch.bool(0.5):
                f2 = ch.choice(['fp.copysign', 'fp.fdim', 'fp.fmod', 'fp.hypot', 'fp.remainder'])
                return f'{f2}({a}, {b})'
            return f'({a} / {b})'
        if d > 0 and self.mode in ('const', 'mix') and ch.bool(0.3 if self.mode == 'const' else 0.08):
            return self.const_expr(ch.int(1, 2))
        return super().expr_R(fn, d)

    def const_expr(self, d):
        ch = self.ch
        if d <= 0:
            return self.lit()
        k = ch.int(0, 8)
        a, b = self.const_expr(d - 1), self.const_expr(d - 1)
        self.features.add('const-expr')
        if k <= 2:
            return f'({a} {ch.choice(["+", "-", "*"])} {b})'
        if k == 3:
            return f'({a} / {b})'
        if k == 4:
            return f'fp.round({a})'
        if k == 5:
            return f'{ch.choice(["min", "max"])}({a}, {b})'
        if k == 6:
            return f'abs(-{a})'
        if k == 7:
            return f'({a} if {a} < {b} else {b})'
        return f'fp.fma({a}, {b}, {self.lit()})'

    def class_cond(self, fn, d):
        """A condition that tests the class of real variables (what ValueClassInfer refines on)."""
        ch = self.ch
        vs = self.vars_of(fn, 'R')
        if not vs:
            return self.expr_B(fn, 1)
        v = ch.choice(vs)
        w = ch.choice(vs)
        if d > 0 and ch.bool(0.35):
            k = ch.int(0, 2)
            if k == 0:
                return f'(not {self.class_cond(fn, d - 1)})'
            op = 'and' if k == 1 else 'or'
            return f'({self.class_cond(fn, d - 1)} {op} {self.class_cond(fn, d - 1)})'
        lit = ch.choice(['0', '0', '0.0', '-0.0', '1', '1.5', '-2', '100'])
        k = ch.int(0, 11)
        self.features.add('class-cond')
        if k <= 6 and ch.bool(0.3):
            # the test is applied to a ROUNDED expression of the variable: under a narrow context its class
            # is not the variable's (abs(1e10) is inf under FP16, -1e-10 is -0 under a fixed-point context)
            v = ch.choice([f'abs({v})', f'(-{v})', f'({v} + 0)', f'fp.round({v})', f'({v} * 1)', f'abs(-{v})'])
            self.features.add('class-cond-rounded')
        if k == 0:
            return f'fp.isnan({v})'
        if k == 1:
            return f'fp.isinf({v})'
        if k == 2:
            return f'fp.isfinite({v})'
        if k == 3:
            return f'({v} == {lit})'
        if k == 4:
            return f'({v} != {lit})'
        if k == 5:
            return f'({lit} == {v})'
        if k == 6:
            return f'({v} {ch.choice(["<", "<=", ">", ">="])} {lit})'
        if k == 7:
            return f'({v} {ch.choice(["<", "<=", ">", ">=", "==", "!="])} {w})'
        if k == 8:
            return f'({lit} {ch.choice(["<", "<="])} {v} {ch.choice(["<", "<=", "!=", "=="])} {w})'
        if k == 9:
            return f'fp.isnormal({v})'
        if k == 10:
            return f'({lit} != {v})'
        return f'({v} == {w} == {lit})'

    # -- statements ---------------------------------------------------------
    def stmt(self, fn: _Fn, ind, depth, out, in_loop, in_with):
        ch = self.ch
        p_extra = {'alias': 0.55, 'class': 0.45, 'const': 0.4, 'size': 0.5, 'mix': 0.4}[self.mode]
        if not ch.bool(p_extra):
            return super().stmt(fn, ind, depth, out, in_loop, in_with)
        weights = {
            'alias': [(10, 'alias'), (2, 'class'), (1, 'const'), (3, 'size')],
            'class': [(1, 'alias'), (10, 'class'), (2, 'const'), (1, 'size')],
            'const': [(1, 'alias'), (2, 'class'), (10, 'const'), (1, 'size')],
            'size': [(3, 'alias'), (1, 'class'), (2, 'const'), (10, 'size')],
            'mix': [(4, 'alias'), (3, 'class'), (2, 'const'), (3, 'size')],
        }[self.mode]
        fam = ch.weighted(weights)
        r = getattr(self, 'stmt_' + fam)(fn, ind, depth, out, in_loop, in_with)
        if r is None:
            return super().stmt(fn, ind, depth, out, in_loop, in_with)
        return r

    def bind(self, fn, name, ty, lb=None, rl=None):
        fn.env[name] = ty
        if ty in ('L', 'LL'):
            fn.len_lb[name] = max(0, lb or 0)
        if ty == 'LL':
            self.row_lb[name] = min(self.row_lb.get(name, 99), max(0, rl or 0))

    def pick_name(self, fn, ty, prefix):
        vs = [v for v in self.vars_of(fn, ty) if v not in fn.protected]
        if vs and self.ch.bool(0.4):
            return self.ch.choice(vs)
        return fn.fresh(prefix)

    # .. alias family
    def stmt_alias(self, fn, ind, depth, out, in_loop, in_with):
        ch = self.ch
        ls = self.vars_of(fn, 'L')
        lls = self.ll_vars(fn)
        opts = [(4, 'newLL')]
        if ls:
            opts += [(3, 'bindL'), (2, 'tuple'), (2, 'ifexpr'), (2, 'sliceL'), (2, 'storeL')]
        if lls:
            opts += [(4, 'row'), (3, 'bindLL'), (3, 'rowstore'), (2, 'eltstore'), (2, 'rowcomp'), (2, 'tupleLL')]
            if depth > 0:
                opts += [(4, 'iter')]
        if depth > 0 and (ls or lls):
            opts += [(2, 'branch-alias')]
        if depth > 0 and ls:
            opts += [(2, 'pairs'), (2, 'for-rebind')]
        if ls and [v for v in lls if fn.len_lb.get(v, 0) > 0]:
            opts += [(3, 'deep-store')]
        k = ch.weighted(opts)
        if k == 'newLL':
            v = self.pick_name(fn, 'LL', 'xss')
            e, lb, rl = self.expr_LL(fn)
            out.append(f'{ind}{v} = {e}')
            if v in fn.env:
                self.row_lb[v] = min(self.row_lb.get(v, 99), rl)
                fn.len_lb[v] = lb
            else:
                self.bind(fn, v, 'LL', lb, rl)
        elif k == 'bindL':
            v = self.pick_name(fn, 'L', 'ys')
            src = ch.choice(ls)
            out.append(f'{ind}{v} = {src}')
            self.bind(fn, v, 'L', fn.len_lb.get(src, 0))
            self.features.add('alias:binding')
        elif k == 'bindLL':
            v = self.pick_name(fn, 'LL', 'yss')
            src = ch.choice(lls)
            out.append(f'{ind}{v} = {src}')
            self.bind(fn, v, 'LL', fn.len_lb.get(src, 0), self.row_lb.get(src, 0))
            self.features.add('alias:binding')
        elif k == 'row':
            src = ch.choice(lls)
            lb = fn.len_lb.get(src, 0)
            if lb <= 0:
                return None
            v = self.pick_name(fn, 'L', 'row')
            out.append(f'{ind}{v} = {src}[{ch.int(0, lb - 1)}]')
            self.bind(fn, v, 'L', self.row_lb.get(src, 0))
            self.features.add('alias:indexing')
        elif k == 'sliceL':
            src = ch.choice(ls)
            lb = fn.len_lb.get(src, 0)
            lo = ch.int(0, lb)
            v = self.pick_name(fn, 'L', 'zs')
            out.append(f'{ind}{v} = {src}[{lo}:]')
            self.bind(fn, v, 'L', lb - lo)
        elif k == 'storeL':
            cands = [l for l in ls if fn.len_lb.get(l, 0) > 0]
            if not cands:
                return None
            l = ch.choice(cands)
            out.append(f'{ind}{l}[{ch.int(0, fn.len_lb[l] - 1)}] = {self.small_R(fn)}')
            self.features.add('list-store')
        elif k == 'rowstore':
            cands = [l for l in lls if fn.len_lb.get(l, 0) > 0]
            if not cands:
                return None
            dst = ch.choice(cands)
            i = ch.int(0, fn.len_lb[dst] - 1)
            if ls and ch.bool(0.6):
                src = ch.choice(ls)
                out.append(f'{ind}{dst}[{i}] = {src}')
                self.lower_rows(fn.len_lb.get(src, 0))
                self.features.add('alias:element-store')
            else:
                m = ch.int(0, 4)
                out.append(f'{ind}{dst}[{i}] = {self.list_lit(fn, m)}')
                self.lower_rows(m)
            self.features.add('row-replaced')
        elif k == 'eltstore':
            cands = [l for l in lls if fn.len_lb.get(l, 0) > 0 and self.row_lb.get(l, 0) > 0]
            if not cands:
                return None
            dst = ch.choice(cands)
            out.append(f'{ind}{dst}[{ch.int(0, fn.len_lb[dst] - 1)}][{ch.int(0, self.row_lb[dst] - 1)}] = {self.small_R(fn)}')
        elif k == 'rowcomp':
            src = ch.choice(lls)
            v = self.pick_name(fn, 'L', 'ws')
            r = fn.fresh('r')
            if self.row_lb.get(src, 0) > 0 and ch.bool(0.6):
                out.append(f'{ind}{v} = [{r}[{ch.int(0, self.row_lb[src] - 1)}] for {r} in {src}]')
            else:
                out.append(f'{ind}{v} = [len({r}) for {r} in {src}]')
            self.bind(fn, v, 'L', fn.len_lb.get(src, 0))
        elif k == 'tuple':
            a, b = ch.choice(ls), ch.choice(ls)
            p, q = fn.fresh('p'), fn.fresh('q')
            form = ch.int(0, 2)
            if form == 0:
                out.append(f'{ind}{p}, {q} = ({a}, {b})')
            elif form == 1:
                t = fn.fresh('t')
                out.append(f'{ind}{t} = ({a}, {b})')
                out.append(f'{ind}{p}, {q} = {t}')
            else:
                t = fn.fresh('t')
                out.append(f'{ind}{t} = ({a}, {self.small_R(fn)}, {b})')
                out.append(f'{ind}{p}, _, {q} = {t}')
            self.bind(fn, p, 'L', fn.len_lb.get(a, 0))
            self.bind(fn, q, 'L', fn.len_lb.get(b, 0))
            self.features.add('alias:tuple')
        elif k == 'tupleLL':
            a = ch.choice(lls)
            p, q = fn.fresh('p'), fn.fresh('q')
            if ls and ch.bool(0.5):
                b = ch.choice(ls)
                out.append(f'{ind}{p}, {q} = ({a}, {b})')
                self.bind(fn, p, 'LL', fn.len_lb.get(a, 0), self.row_lb.get(a, 0))
                self.bind(fn, q, 'L', fn.len_lb.get(b, 0))
            else:
                t = fn.fresh('t')
                out.append(f'{ind}{t} = ({a}, {a})')
                out.append(f'{ind}{p} = fp.fst({t})')
                out.append(f'{ind}{q} = fp.snd({t})')
                self.bind(fn, p, 'LL', fn.len_lb.get(a, 0), self.row_lb.get(a, 0))
                self.bind(fn, q, 'LL', fn.len_lb.get(a, 0), self.row_lb.get(a, 0))
            self.features.add('alias:tuple')
        elif k == 'ifexpr':
            a, b = ch.choice(ls), ch.choice(ls)
            v = self.pick_name(fn, 'L', 'cs')
            out.append(f'{ind}{v} = ({a} if {self.expr_B(fn, 1)} else {b})')
            self.bind(fn, v, 'L', min(fn.len_lb.get(a, 0), fn.len_lb.get(b, 0)))
            self.features.add('alias:if-expr')
        elif k == 'iter':
            src = ch.choice(lls)
            snap = self.snapshot(fn)
            form = ch.int(0, 3)
            r = fn.fresh('row')
            if form == 0:
                out.append(f'{ind}for {r} in {src}:')
                self.bind(fn, r, 'L', self.row_lb.get(src, 0))
            elif form == 1:
                i = fn.fresh('i')
                out.append(f'{ind}for {i}, {r} in enumerate({src}):')
                fn.env[i] = 'R'
                fn.protected.add(i)
                self.bind(fn, r, 'L', self.row_lb.get(src, 0))
            elif form == 2:
                r2 = fn.fresh('row')
                out.append(f'{ind}for {r}, {r2} in zip({src}, {src}):')
                self.bind(fn, r, 'L', self.row_lb.get(src, 0))
                self.bind(fn, r2, 'L', self.row_lb.get(src, 0))
                fn.protected.add(r2)
            else:
                out.append(f'{ind}for {r} in {src}[{ch.int(0, fn.len_lb.get(src, 0))}:]:')
                self.bind(fn, r, 'L', self.row_lb.get(src, 0))
            fn.protected.add(r)
            body = []
            # make the alias visible: keep the row in an outer name or mutate through it
            outer = [v for v in self.vars_of(fn, 'L') if v not in fn.protected and v in snap[0]]
            if outer and ch.bool(0.6):
                body.append(f'{ind}    {ch.choice(outer)} = {r}')
            self.block(fn, ind + '    ', ch.int(1, 2), depth - 1, body, True, in_with)
            out += body
            after = self.snapshot(fn)
            self.restore(fn, snap)
            for n in list(fn.len_lb):
                if n in after[1]:
                    fn.len_lb[n] = min(fn.len_lb[n], after[1][n])
            self.features.add('alias:iteration')
        elif k == 'deep-store':
            # a multi-index store of a list, three levels deep, read back under another name
            cands = [v for v in lls if fn.len_lb.get(v, 0) > 0]
            a = ch.choice(cands)
            b = ch.choice(lls)
            l = ch.choice(ls)
            g = fn.fresh('g')
            i = ch.int(0, fn.len_lb[a] - 1)
            first = ch.bool(0.5) or fn.len_lb.get(b, 0) <= 0
            out.append(f'{ind}{g} = [{a}, {b}]' if first else f'{ind}{g} = [{b}, {a}]')
            kk = 0 if first else 1
            out.append(f'{ind}{g}[{kk}][{i}] = {l}')
            self.lower_rows(fn.len_lb.get(l, 0))
            cell = self.pick_name(fn, 'L', 'cell')
            form = ch.int(0, 2)
            if form == 0:
                out.append(f'{ind}{cell} = {g}[{kk}][{i}]')
            elif form == 1:
                pl = fn.fresh('pl')
                out.append(f'{ind}{pl} = {g}[{kk}]')
                self.bind(fn, pl, 'LL', fn.len_lb[a], 0)
                out.append(f'{ind}{cell} = {pl}[{i}]')
            else:
                out.append(f'{ind}{cell} = {a}[{i}]')
            self.bind(fn, cell, 'L', fn.len_lb.get(l, 0))
            self.features.add('alias:deep-store')
        elif k == 'pairs':
            # a list of tuples that hold lists: element parts are tuples, fields are lists
            a, b = ch.choice(ls), ch.choice(ls)
            ps = fn.fresh('ps')
            out.append(f'{ind}{ps} = [({a}, {self.small_R(fn)}), ({b}, {self.small_R(fn)})]')
            keep = self.pick_name(fn, 'L', 'kp')
            lb = min(fn.len_lb.get(a, 0), fn.len_lb.get(b, 0))
            form = ch.int(0, 2)
            if form == 0:
                out.append(f'{ind}{keep} = fp.fst({ps}[{ch.int(0, 1)}])')
            elif form == 1:
                pv, kv = fn.fresh('pv'), fn.fresh('kv')
                if keep not in fn.env:
                    out.append(f'{ind}{keep} = {a}')
                out.append(f'{ind}for {pv}, {kv} in {ps}:')
                out.append(f'{ind}    {keep} = {pv}')
            else:
                pv = fn.fresh('pv')
                out.append(f'{ind}{keep} = [fp.fst({pv}) for {pv} in {ps}][{ch.int(0, 1)}]')
            self.bind(fn, keep, 'L', lb)
            self.features.add('alias:tuple')
        elif k == 'for-rebind':
            # the loop variable rebinds an existing name, which is read after the loop
            rs = [v for v in self.vars_of(fn, 'R') if v not in fn.protected]
            if not rs:
                return None
            v = ch.choice(rs)
            l = ch.choice(ls)
            form = ch.int(0, 2)
            if form == 0:
                out.append(f'{ind}for {v} in {l}:')
            elif form == 1:
                out.append(f'{ind}for {v} in range({ch.int(0, 3)}):')
            else:
                out.append(f'{ind}for {fn.fresh("i")}, {v} in enumerate({l}):')
            w, _ = self.new_or_old(fn, 'R', 'v')
            if w == v:
                w = fn.fresh('v')
            snap = self.snapshot(fn)
            out.append(f'{ind}    {w} = {v} + {self.small_R(fn)}' if w in fn.env else f'{ind}    pass')
            self.restore(fn, snap)
            u = fn.fresh('v')
            out.append(f'{ind}{u} = {v} * 2')
            fn.env[u] = 'R'
            self.features.add('for-rebind')
        elif k == 'branch-alias':
            # the same name aliases different lists on the two arms (phi of list definitions)
            pool = ls if (ls and (not lls or ch.bool(0.6))) else lls
            ty = 'L' if pool is ls else 'LL'
            a, b = ch.choice(pool), ch.choice(pool)
            v = fn.fresh('m')
            out.append(f'{ind}if {self.expr_B(fn, 1)}:')
            out.append(f'{ind}    {v} = {a}')
            out.append(f'{ind}else:')
            if ty == 'L' and ch.bool(0.4):
                lb = fn.len_lb.get(b, 0)
                lo = ch.int(0, lb)
                out.append(f'{ind}    {v} = {b}[{lo}:]')
                blb = lb - lo
            else:
                out.append(f'{ind}    {v} = {b}')
                blb = fn.len_lb.get(b, 0)
            if ty == 'L':
                self.bind(fn, v, 'L', min(fn.len_lb.get(a, 0), blb))
            else:
                self.bind(fn, v, 'LL', min(fn.len_lb.get(a, 0), blb), min(self.row_lb.get(a, 0), self.row_lb.get(b, 0)))
            self.features.add('alias:branch-phi')
        return False

    # .. value-class family
    def stmt_class(self, fn, ind, depth, out, in_loop, in_with):
        ch = self.ch
        vs = self.vars_of(fn, 'R')
        opts = [(3, 'narrow')]
        if vs and depth > 0:
            opts += [(6, 'class-if'), (3, 'ladder'), (3, 'loop-widen'), (3, 'real-block')]
        k = ch.weighted(opts)
        if k == 'narrow':
            v, _ = self.new_or_old(fn, 'R', 'z')
            out.append(f'{ind}{v} = {ch.choice(CLASS_LITS + ["fp.inf()", "fp.nan()", "(1 / 0)", "(0 * 5)"])}')
            fn.env[v] = 'R'
        elif k == 'class-if':
            out.append(f'{ind}if {self.class_cond(fn, 1)}:')
            snap = self.snapshot(fn)
            r1 = self.block(fn, ind + '    ', ch.int(1, 2), depth - 1, out, in_loop, in_with)
            one_armed = ch.bool(0.3)
            env1 = self.snapshot(fn)
            self.restore(fn, snap)
            if not one_armed:
                out.append(f'{ind}else:')
                r2 = self.block(fn, ind + '    ', ch.int(1, 2), depth - 1, out, in_loop, in_with)
                env2 = self.snapshot(fn)
                self.restore(fn, snap)
                if r1 and r2:
                    return True
                for n in list(fn.len_lb):
                    if n in env1[1] and n in env2[1]:
                        fn.len_lb[n] = min(env1[1][n], env2[1][n], fn.len_lb[n])
            else:
                for n in list(fn.len_lb):
                    if n in env1[1]:
                        fn.len_lb[n] = min(fn.len_lb[n], env1[1][n])
            self.features.add('class-if')
        elif k == 'ladder':
            v = ch.choice(vs)
            u = fn.fresh('u')
            tests = [f'fp.isnan({v})', f'fp.isinf({v})', f'{v} == 0', f'{v} < 0', f'not fp.isfinite({v})', f'{v} != 0']
            n = ch.int(2, 4)
            picks = [ch.choice(tests) for _ in range(n)]
            for i, t in enumerate(picks):
                out.append(f'{ind}{"if" if i == 0 else "elif"} {t}:')
                out.append(f'{ind}    {u} = {self.probe_expr(fn, v)}')
            out.append(f'{ind}else:')
            out.append(f'{ind}    {u} = {self.probe_expr(fn, v)}')
            fn.env[u] = 'R'
            self.features.add('class-ladder')
        elif k == 'loop-widen':
            v = fn.fresh('w')
            out.append(f'{ind}{v} = {ch.choice(CLASS_LITS + ["fp.inf()"])}')
            fn.env[v] = 'R'
            snap = self.snapshot(fn)
            n = ch.int(0, 3)
            i = fn.fresh('i')
            ls = self.vars_of(fn, 'L')
            if ls and ch.bool(0.4):
                out.append(f'{ind}for {i} in {ch.choice(ls)}:')
            else:
                out.append(f'{ind}for {i} in range({n}):')
            fn.env[i] = 'R'
            fn.protected.add(i)
            u = fn.fresh('u')
            out.append(f'{ind}    {u} = {self.probe_expr(fn, v)}')
            out.append(f'{ind}    {v} = {self.probe_expr(fn, v)}')
            if ch.bool(0.4):
                out.append(f'{ind}    if {self.class_cond(fn, 0)}:')
                out.append(f'{ind}        {v} = {self.probe_expr(fn, v)}')
            self.restore(fn, snap)
            self.features.add('class-loop')
        elif k == 'real-block':
            out.append(f'{ind}with fp.REAL:')
            old_safe = fn.safe
            fn.safe = True
            body = []
            r = self.block(fn, ind + '    ', ch.int(1, 3), depth - 1, body, in_loop, in_with + 1)
            out += body
            fn.safe = old_safe
            self.features.add('with')
            return r
        return False

    def probe_expr(self, fn, v):
        ch = self.ch
        vs = self.vars_of(fn, 'R')
        w = ch.choice(vs) if vs else '1'
        return ch.choice([f'{v} * 0', f'{v} - {v}', f'{v} + {w}', f'abs({v})', f'-{v}', f'min({v}, {w})', f'{v} * {w}',
                          f'1 / {v}', f'{v} / 0', f'{v} + 1', f'fp.logb({v})', f'{v}', f'{v} * {v}', f'max({v}, 0)',
                          f'2 ** max(min({v}, 8), -8)', f'({v} if {v} == {v} else 0)'])

    # .. constant family
    def stmt_const(self, fn, ind, depth, out, in_loop, in_with):
        ch = self.ch
        opts = [(4, 'const-assign'), (2, 'const-list')]
        if depth > 0:
            opts += [(4, 'ctx-block'), (4, 'loop-redef'), (3, 'branch-redef')]
        k = ch.weighted(opts)
        if k == 'const-assign':
            v, _ = self.new_or_old(fn, 'R', 'c')
            out.append(f'{ind}{v} = {self.const_expr(ch.int(0, 2))}')
            fn.env[v] = 'R'
        elif k == 'const-list':
            v = self.pick_name(fn, 'L', 'ks')
            n = ch.int(1, 4)
            out.append(f'{ind}{v} = [{", ".join(self.const_expr(ch.int(0, 1)) for _ in range(n))}]')
            self.bind(fn, v, 'L', n)
            if ch.bool(0.5):
                w = fn.fresh('ka')
                out.append(f'{ind}{w} = {v}')
                self.bind(fn, w, 'L', n)
                self.features.add('alias:binding')
        elif k == 'ctx-block':
            text, safe = self.ctx_text(fn)
            out.append(f'{ind}with {text}:')
            old_safe = fn.safe
            fn.safe = safe
            v = fn.fresh('c')
            body = [f'{ind}    {v} = {self.const_expr(ch.int(1, 2))}']
            fn.env[v] = 'R'
            r = self.block(fn, ind + '    ', ch.int(1, 2), depth - 1, body, in_loop, in_with + 1)
            out += body
            fn.safe = old_safe
            self.features.add('with')
            return r
        elif k == 'loop-redef':
            v = fn.fresh('c')
            out.append(f'{ind}{v} = {self.lit()}')
            fn.env[v] = 'R'
            snap = self.snapshot(fn)
            i = fn.fresh('i')
            out.append(f'{ind}for {i} in range({ch.int(0, 3)}):')
            fn.env[i] = 'R'
            fn.protected.add(i)
            u = fn.fresh('u')
            forms = [f'{v} + 1', f'{self.lit()}', f'{v}', f'{v} * 2', f'{self.const_expr(1)}', f'{i}']
            body = [f'{ind}    {u} = {v} + {self.lit()}', f'{ind}    {v} = {ch.choice(forms)}']
            if ch.bool(0.3):
                body.reverse()
                body[1] = f'{ind}    {u} = {v} * {self.lit()}'
            out += body
            self.restore(fn, snap)
            w = fn.fresh('c')
            out.append(f'{ind}{w} = {v} + {self.lit()}')
            fn.env[w] = 'R'
            self.features.add('const-loop')
        elif k == 'branch-redef':
            v = fn.fresh('c')
            a = self.lit()
            b = a if ch.bool(0.3) else self.lit()
            out.append(f'{ind}if {self.expr_B(fn, 1)}:')
            out.append(f'{ind}    {v} = {a}')
            out.append(f'{ind}else:')
            out.append(f'{ind}    {v} = {b}')
            fn.env[v] = 'R'
            w = fn.fresh('c')
            out.append(f'{ind}{w} = {v} * {self.lit()}')
            fn.env[w] = 'R'
            self.features.add('const-branch')
        return False

    # .. size family
    def stmt_size(self, fn, ind, depth, out, in_loop, in_with):
        ch = self.ch
        ls = self.vars_of(fn, 'L')
        opts = [(3, 'range-list'), (2, 'product'), (2, 'empty-fill')]
        if ls:
            opts += [(4, 'slice'), (2, 'len-use'), (2, 'zip-link'), (4, 'range-affine')]
        if depth > 0:
            opts += [(4, 'branch-size'), (4, 'loop-shrink')]
        k = ch.weighted(opts)
        if k == 'range-list':
            v = self.pick_name(fn, 'L', 'rs')
            a, b = ch.int(0, 3), ch.int(0, 5)
            form = ch.int(0, 3)
            i = fn.fresh('i')
            if form == 0:
                out.append(f'{ind}{v} = [{i} for {i} in range({b})]')
                n = b
            elif form == 1:
                out.append(f'{ind}{v} = [{i} for {i} in range({a}, {b})]')
                n = max(0, b - a)
            elif form == 2:
                s = ch.choice([1, 2, 3, -1, -2])
                out.append(f'{ind}{v} = [{i} for {i} in range({a}, {b}, {s})]')
                n = len(range(a, b, s))
            else:
                if ls:
                    l = ch.choice(ls)
                    out.append(f'{ind}{v} = [{i} for {i} in range(len({l}))]')
                    n = fn.len_lb.get(l, 0)
                else:
                    out.append(f'{ind}{v} = [{i} for {i} in range({a} + {b})]')
                    n = a + b
            self.bind(fn, v, 'L', n)
        elif k == 'range-affine':
            # bounds that are affine in a run-time integer (a length), computed exactly: the length is
            # static only when the variable part enters both bounds with the same sign
            l = ch.choice(ls)
            m, v, i = fn.fresh('m'), self.pick_name(fn, 'L', 'ra'), fn.fresh('i')
            c = ch.int(4, 10)
            w = ch.int(0, 4)
            lo, hi, step = ch.choice([(m, f'{c} - {m}', None), (f'{m} + 1', f'{c} - {m}', None), (f'{c} - {m}', m, '-1'),
                                      (m, f'{m} + {w}', None), (f'{m} - 1', f'{m} + {w}', None), (f'{c} - {m}', f'{c + w} - {m}', None),
                                      (f'1 + {m}', f'{c} - {m} - 1', None), (m, f'{c} - {m}', '2')])
            rng = f'range({lo}, {hi})' if step is None else f'range({lo}, {hi}, {step})'
            out.append(f'{ind}with fp.REAL:')
            out.append(f'{ind}    {m} = len({l})')
            out.append(f'{ind}    {v} = [{i} for {i} in {rng}]')
            fn.env[m] = 'R'
            fn.protected.add(m)
            self.bind(fn, v, 'L', 0)
            self.features.add('size-affine')
        elif k == 'empty-fill':
            v = fn.fresh('es')
            n = ch.int(0, 3)
            out.append(f'{ind}{v} = fp.empty({n})')
            i = fn.fresh('i')
            out.append(f'{ind}for {i} in range({n}):')
            out.append(f'{ind}    {v}[{i}] = {self.small_R(fn)}')
            self.bind(fn, v, 'L', n)
        elif k == 'product':
            v = self.pick_name(fn, 'L', 'ps')
            a, b = ch.int(0, 3), ch.int(0, 3)
            i, j = fn.fresh('i'), fn.fresh('j')
            out.append(f'{ind}{v} = [{i} * {j} for {i} in range({a}) for {j} in range({b})]')
            self.bind(fn, v, 'L', a * b)
        elif k == 'slice':
            src = ch.choice(ls)
            lb = fn.len_lb.get(src, 0)
            v = self.pick_name(fn, 'L', 'ss')
            lo = ch.int(0, lb)
            hi = ch.int(lo, lb)
            form = ch.int(0, 4)
            if form == 0:
                out.append(f'{ind}{v} = {src}[{lo}:{hi}]')
                n = hi - lo
            elif form == 1:
                out.append(f'{ind}{v} = {src}[{lo}:]')
                n = lb - lo
            elif form == 2:
                out.append(f'{ind}{v} = {src}[:{hi}]')
                n = hi
            elif form == 3:
                out.append(f'{ind}{v} = {src}[:]')
                n = lb
            else:
                # affine bounds around a computed base (exact only under REAL)
                b = fn.fresh('b')
                w = hi - lo
                out.append(f'{ind}{b} = {lo}')
                fn.env[b] = 'R'
                out.append(f'{ind}{v} = {src}[{b}:{b} + {w}]')
                n = w
            self.bind(fn, v, 'L', n)
        elif k == 'len-use':
            l = ch.choice(ls)
            v, _ = self.new_or_old(fn, 'R', 'n')
            out.append(f'{ind}{v} = len({l}) + {self.lit()}')
            fn.env[v] = 'R'
        elif k == 'zip-link':
            l = ch.choice(ls)
            v = self.pick_name(fn, 'L', 'zs')
            x, y = fn.fresh('e'), fn.fresh('e')
            m = fn.fresh('ms')
            out.append(f'{ind}{m} = [{x} + 1 for {x} in {l}]')
            self.bind(fn, m, 'L', fn.len_lb.get(l, 0))
            out.append(f'{ind}{v} = [{x} * {y} for {x}, {y} in zip({l}, {m})]')
            self.bind(fn, v, 'L', fn.len_lb.get(l, 0))
        elif k == 'branch-size':
            v = fn.fresh('bs')
            n1, n2 = ch.int(0, 4), ch.int(0, 4)
            if ch.bool(0.3):
                n2 = n1
            out.append(f'{ind}if {self.expr_B(fn, 1)}:')
            out.append(f'{ind}    {v} = {self.list_lit(fn, n1)}')
            out.append(f'{ind}else:')
            if ls and ch.bool(0.4):
                l = ch.choice(ls)
                out.append(f'{ind}    {v} = {l}')
                n2 = fn.len_lb.get(l, 0)
            else:
                out.append(f'{ind}    {v} = {self.list_lit(fn, n2)}')
            self.bind(fn, v, 'L', min(n1, n2))
            self.features.add('size-branch')
        elif k == 'loop-shrink':
            v = fn.fresh('sh')
            n = ch.int(1, 5)
            trips = ch.int(0, min(n, 3))
            out.append(f'{ind}{v} = {self.list_lit(fn, n)}')
            self.bind(fn, v, 'L', n)
            i = fn.fresh('i')
            out.append(f'{ind}for {i} in range({trips}):')
            form = ch.int(0, 3)
            if form == 0:
                out.append(f'{ind}    {v} = {v}[1:]')
                left = n - trips
            elif form == 1:
                out.append(f'{ind}    {v} = {v}[:len({v}) - 1]')
                left = n - trips
            elif form == 2:
                e = fn.fresh('e')
                out.append(f'{ind}    {v} = [{e} for {e} in {v}]')
                left = n
            else:
                out.append(f'{ind}    {v} = {v}[:]')
                left = n
            fn.len_lb[v] = max(0, left)
            self.features.add('size-loop')
        return False

    # -- snapshots carry nothing extra: row_lb is monotone --------------------

    # -- functions ------------------------------------------------------------
    def function(self, name, is_main):
        ch = self.ch
        p = self.p
        nparams = ch.int(1, 3)
        params = []
        minlen = {}
        minrow = {}
        for i in range(nparams):
            t = ch.weighted([(5, 'R'), (3, 'L'), (2 if is_main else 1, 'LL')]) if p.lists else 'R'
            pn = f'{"a" if is_main else "p"}{i}'
            params.append((pn, t))
            if t in ('L', 'LL'):
                minlen[pn] = ch.int(0, 3)
            if t == 'LL':
                minrow[pn] = ch.int(0, 2)
        own_ctx = None
        safe = True
        pr = 0.5 if not is_main else 0.3
        if self.mode in ('class', 'const') and ch.bool(0.35):
            own_ctx, safe = 'fp.REAL', True
        elif ch.bool(pr):
            own_ctx, safe = self.ctx_text(None, allow_computed=False)
        else:
            safe = is_main
        fn = _Fn(self, name, params, safe, is_main)
        fn.len_lb.update(minlen)
        for k, v in minrow.items():
            self.row_lb[k] = v
        fn.ret_type = ch.weighted([(12, 'R'), (3, 'L'), (1, 'B'), (1, 'T'), (2, 'LL')])
        if not p.lists and fn.ret_type in ('L', 'LL'):
            fn.ret_type = 'R'
        body = []
        nst = ch.int(2, p.max_stmts) if is_main else ch.int(1, 4)
        mutates = False
        lparams = [n for n, t in params if t == 'L' and minlen[n] > 0]
        if not is_main and p.helpers_mutate and lparams and ch.bool(0.6):
            l = ch.choice(lparams)
            body.append(f'    {l}[{ch.int(0, minlen[l] - 1)}] = {self.expr_R(fn, 2)}')
            mutates = True
        returned = self.block(fn, '    ', nst, p.max_depth if is_main else 2, body)
        if not returned:
            body.append(f'    return {self.expr(fn, fn.ret_type, p.expr_depth)}')
        sig = ', '.join(f'{n}: {ANN[t]}' for n, t in params)
        ret = f' -> {ANN[fn.ret_type]}'
        deco = '@fp.fpy' if own_ctx is None else f'@fp.fpy(ctx={own_ctx})'
        self.lines += [deco, f'def {name}({sig}){ret}:'] + body + ['']
        self.funcs.append(FuncInfo(name, params, minlen, minrow, fn.ret_type))
        # helpers are only callable through the base grammar when their signature uses base types
        callable_ = all(t in ('R', 'L') for _, t in params) and fn.ret_type in ('R', 'L', 'B', 'T')
        return (name, params, fn.ret_type, own_ctx is not None, mutates, minlen) if callable_ else None

    def module(self) -> Module:
        nh = self.ch.int(0, self.p.max_helpers)
        for i in range(nh):
            h = self.function(f'h{i}', False)
            if h is not None:
                self.helpers.append(h)
        self.function('main', True)
        return Module(src='\n'.join(self.lines) + '\n', funcs=list(self.funcs), features=set(self.features))


MODES = ['alias', 'class', 'const', 'size', 'mix', 'alias', 'class', 'mix']


def gen_module(ch: Chooser, i: int) -> Module:
    mode = MODES[i % len(MODES)]
    p = Profile(typed_signature=True)
    p.max_helpers = 1
    p.max_stmts = 7 if i % 3 else 5
    p.expr_depth = 2 if i % 2 else 3
    if mode in ('class', 'const'):
        p.early_return = (i % 5 == 0)
    return Gen13(ch, p, mode).module()


# ---------------------------------------------------------------------------
# inputs

R_POOL = progen.R_POOL + [0, -0.0, float('inf'), float('-inf'), float('nan'), 0.0, 1, -1, 2, 1e-10, -1e10, 1e300]


def gen_value(ch: Chooser, t, minlen=0, minrow=0):
    if t == 'R':
        return ch.choice(R_POOL)
    if t == 'X':                      # far outside / far below the range of a narrow context
        return ch.choice([1e10, -1e10, 1e-10, -1e-10, 1e300, -1e-300, 65520.0, 1e5, 3e-8, 0.0, -0.0, 1.0, -2.5,
                          float('inf'), float('-inf'), float('nan')])
    if t == 'I':                      # a small index
        return ch.int(0, 3)
    if t == 'J':                      # an upper index, never below an 'I'
        return ch.int(3, 7)
    if t == 'B':
        return ch.bool()
    if t == 'T':
        return (ch.choice(R_POOL), ch.choice(R_POOL))
    if t == 'L':
        k = minlen + ch.weighted([(3, 0), (3, 1), (2, 2), (1, 3)])
        return [ch.choice(R_POOL) for _ in range(k)]
    if t == 'LLL':
        return [[[ch.choice(R_POOL) for _ in range(1 + ch.int(0, 2))] for _ in range(2 + ch.int(0, 1))] for _ in range(2 + ch.int(0, 1))]
    if t == 'LL':
        k = minlen + ch.weighted([(3, 0), (3, 1), (2, 2)])
        same = ch.bool(0.5)
        m = minrow + ch.int(0, 2)
        return [[ch.choice(R_POOL) for _ in range(m if same else minrow + ch.int(0, 3))] for _ in range(k)]
    raise ValueError(t)


def gen_inputs(ch: Chooser, f: FuncInfo, equal_lengths=None):
    args = []
    eq = ch.bool(0.5) if equal_lengths is None else equal_lengths
    first_len = None
    for n, t in f.params:
        v = gen_value(ch, t, f.min_len.get(n, 0), f.min_row.get(n, 0))
        if t == 'L' and eq:
            # lists of equal length half of the time, so that strict zips of two parameters complete
            if first_len is None:
                first_len = len(v)
            elif len(v) != first_len and first_len >= f.min_len.get(n, 0):
                v = [ch.choice(R_POOL) for _ in range(first_len)]
        args.append(v)
    return args


# ---------------------------------------------------------------------------
# scenario templates: (name, source template, [(function, param types, min_len, min_row)])
# {..} fields are filled from small pools so that every shard sees different instances.

TEMPLATES = [
    ('class-loop-header-join', '''
@fp.fpy(ctx=fp.REAL)
def main(a0: fp.Real, a1: list[fp.Real]) -> fp.Real:
    x = {lit0}
    acc = 0
    for e in a1:
        u = x {op0} {k0}
        acc = acc + (1 if fp.isfinite(u) else 0)
        x = {upd}
    y = x {op1} 0
    return y + acc
''', [('main', [('a0', 'R'), ('a1', 'L')], {}, {})]),
    ('class-while-header-join', '''
@fp.fpy(ctx=fp.REAL)
def main(a0: fp.Real, a1: fp.Real) -> fp.Real:
    x = {lit0}
    k = {trips}
    while k > 0:
        u = x {op0} {k0}
        x = {upd}
        k = k - 1
    y = x {op1} 0
    return y
''', [('main', [('a0', 'R'), ('a1', 'R')], {}, {})]),
    ('class-branch-refine', '''
@fp.fpy(ctx=fp.REAL)
def main(a0: fp.Real, a1: fp.Real) -> fp.Real:
    if {cond}:
        u = a0 {op0} {k0}
        v = a0 * 0
        w = a0 - a0
    else:
        u = a0 {op1} {k0}
        v = a0 * 0
        w = a0 - a0
    t = (a0 if {cond} else 1) * 0
    return u + v + w + t
''', [('main', [('a0', 'R'), ('a1', 'R')], {}, {})]),
    ('class-test-on-rounded-expression', '''
@fp.fpy
def main(a0: fp.Real, a1: fp.Real) -> fp.Real:
    r = 0
    with {nctx}:
        if {rtest}:
            u = a0
            r = 1
        else:
            u = a0
            r = 2
        t = (a0 if {rtest} else a1)
    w = a0
    k = {trips}
    with {nctx}:
        while {rtest} and k > 0:
            w = a0
            k = k - 1
    return r
''', [('main', [('a0', 'X'), ('a1', 'X')], {}, {})]),
    # formats with a NaN and no infinity turn an overflowing finite result into NaN: NaN-free operands
    # (literals, guard-refined variables) do not make the rounded result NaN-free
    ('class-overflow-to-nan', '''
@fp.fpy
def main(a0: fp.Real, a1: fp.Real) -> fp.Real:
    r = 0
    with {octx}:
        v = 448 * 2
        w = fp.round(1000)
        u = 300 + 300
        n = -(400 + 400)
        if fp.isfinite(a0):
            t = a0 * 2
            s = a0 + a0
            q = fp.round(a0)
            r = 1
        if not fp.isnan(a1) and not fp.isinf(a1):
            p = a1 - 600
            r = r + 2
    return r
''', [('main', [('a0', 'X'), ('a1', 'X')], {}, {})]),
    ('class-branch-join', '''
@fp.fpy(ctx=fp.REAL)
def main(a0: fp.Real, a1: fp.Real) -> fp.Real:
    if a1 > 0:
        x = {lit0}
    else:
        x = {lit1}
    if {condx}:
        x = a0
    y = x * 0
    z = x - x
    return y + z
''', [('main', [('a0', 'R'), ('a1', 'R')], {}, {})]),
    ('size-slice', '''
@fp.fpy
def main(a0: list[fp.Real], a1: fp.Real) -> fp.Real:
    xs = [{elts}]
    ys = xs[{lo}:]
    zs = xs[:{hi}]
    ws = a0[1:]
    qs = [e for e in ws]
    t = 0
    if len(a0) > 2:
        vs = a0[1:3]
        t = len(vs)
    return len(ys) + len(zs) + len(ws) + len(qs) + t
''', [('main', [('a0', 'L'), ('a1', 'R')], {'a0': 1}, {})]),
    ('size-affine-bounds', '''
@fp.fpy
def f0(xs: list[fp.Real], i: fp.Real) -> list[fp.Real]:
    with fp.REAL:
        ys = xs[{alo}:{ahi}]
    return ys

@fp.fpy
def f1(xs: list[fp.Real], i: fp.Real, j: fp.Real) -> list[fp.Real]:
    with fp.REAL:
        ys = xs[i:j]
        zs = xs[i + 1:len(xs) - i]
        ws = [k for k in range({alo}, {ahi})]
    return zs

@fp.fpy(ctx=fp.REAL)
def f2(xs: list[fp.Real], i: fp.Real) -> list[fp.Real]:
    ks = [k + 0 for k in range({rlo}, {rhi})]
    return ks

@fp.fpy(ctx=fp.REAL)
def f3(xs: list[fp.Real], i: fp.Real) -> list[fp.Real]:
    return [xs[k] for k in range({an} - i, i, -1)]

@fp.fpy
def f4(xs: list[fp.Real], i: fp.Real) -> fp.Real:
    with fp.REAL:
        n = {an}
        ys = xs[i:n - i]
        zs = xs[n - i:n - i + 2]
    return len(ys) + len(zs)
''', [('f0', [('xs', 'L'), ('i', 'I')], {'xs': 10}, {}), ('f1', [('xs', 'L'), ('i', 'I'), ('j', 'J')], {'xs': 10}, {}),
      ('f2', [('xs', 'L'), ('i', 'I')], {'xs': 10}, {}), ('f3', [('xs', 'L'), ('i', 'I')], {'xs': 10}, {}),
      ('f4', [('xs', 'L'), ('i', 'I')], {'xs': 10}, {})]),
    ('size-loop-shrink', '''
@fp.fpy
def main(a0: list[fp.Real], a1: fp.Real) -> fp.Real:
    xs = [{elts}]
    ys = a0
    for i in range({trips}):
        xs = xs[1:]
        ys = [e for e in ys]
    n = len(xs) + len(ys)
    zs = [e + 1 for e in xs]
    return n + len(zs)
''', [('main', [('a0', 'L'), ('a1', 'R')], {}, {})]),
    ('size-branch-merge', '''
@fp.fpy
def main(a0: list[fp.Real], a1: fp.Real) -> fp.Real:
    if a1 > 0:
        xs = [{elts}]
        ys = a0
    else:
        xs = [{elts2}]
        ys = a0[:]
    zs = [e for e in xs]
    ws = [e for e in ys]
    return len(zs) + len(ws) + len(xs)
''', [('main', [('a0', 'L'), ('a1', 'R')], {}, {})]),
    ('size-zip-after-early-return', '''
@fp.fpy
def main(a0: list[fp.Real], a1: list[fp.Real], a2: fp.Real) -> fp.Real:
    n = len(a0) + len(a1)
    if a2 > 0:
        return n
    zs = [x + y for x, y in zip(a0, a1)]
    return len(zs)
''', [('main', [('a0', 'L'), ('a1', 'L'), ('a2', 'R')], {}, {})]),
    ('size-assert-after-early-return', '''
@fp.fpy
def main(a0: list[fp.Real], a1: list[fp.Real], a2: fp.Real) -> fp.Real:
    ys = [x for x in a1]
    n = len(a0) + len(ys)
    if a2 > 0:
        return n
    assert len(a0) == len(a1)
    return len(a0)
''', [('main', [('a0', 'L'), ('a1', 'L'), ('a2', 'R')], {}, {})]),
    ('size-zip-in-conditional-expression', '''
@fp.fpy
def main(a0: list[fp.Real], a1: list[fp.Real], a2: fp.Real) -> fp.Real:
    n = len(a0) + len(a1)
    {condzip}
    return n
''', [('main', [('a0', 'L'), ('a1', 'L'), ('a2', 'R')], {}, {})]),
    ('size-row-replaced-through-alias', '''
@fp.fpy
def main(a0: fp.Real, a1: list[fp.Real]) -> fp.Real:
    xss = [[{elts}], [{elts}]]
    yss = xss
    {store}
    r = yss[0]
    n = 0
    for row in yss:
        n = n + len(row)
    return len(r) + n
''', [('main', [('a0', 'R'), ('a1', 'L')], {}, {})]),
    ('const-alias-mutation', '''
@fp.fpy
def h0(p0: list[fp.Real], p1: fp.Real) -> fp.Real:
    p0[0] = p1
    return p1

@fp.fpy
def main(a0: fp.Real) -> fp.Real:
    xs = [{elts}]
    ys = xs
    {mut}
    with {ctx}:
        z = ys[0] + 1
        w = xs[0] * 2
    return z + w
''', [('main', [('a0', 'R')], {}, {})]),
    ('const-loop-redefinition', '''
@fp.fpy(ctx={ctx})
def main(a0: fp.Real) -> fp.Real:
    c = {lit0}
    d = {lit1}
    s = 0
    for i in range({trips}):
        u = c + {k0}
        s = s + u
        c = {cupd}
        d = {lit1}
    v = c * 2 + d
    return s + v
''', [('main', [('a0', 'R')], {}, {})]),
    ('const-with-contexts', '''
@fp.fpy
def main(a0: fp.Real) -> fp.Real:
    c = {k0} / 3
    with {ctx}:
        d = {k0} / 3
        e = d + 0.1
        with fp.MPFloatContext(2, fp.RM.{rm}):
            f = e * {k0}
        g = f + e
        if a0 > 0:
            g = {k0} + 0.5
    h = d + 1
    return c + h + g
''', [('main', [('a0', 'R')], {}, {})]),
    ('const-nested-loop-while-condition', '''
@fp.fpy(ctx={ctx})
def main(a0: fp.Real) -> fp.Real:
    x = {lit1}
    n = 0
    for i in range({trips}):
        k = x
        while k > {k0}:
            n = n + 1
            k = k * 1
            if n > 0:
                return n
        x = {xupd}
    return n
''', [('main', [('a0', 'R')], {}, {})]),
    ('reach-zero-trip-and-shadow', '''
@fp.fpy
def main(a0: fp.Real, a1: list[fp.Real]) -> fp.Real:
    x = a0
    y = 1
    for i in range({trips}):
        y = x + i
        x = y * 2
    for e in a1:
        x = x + e
    zs = [x + y for x in a1]
    k = {trips}
    while k > 0:
        if x > y:
            y = y + 1
        k = k - 1
    return x + y + len(zs)
''', [('main', [('a0', 'R'), ('a1', 'L')], {}, {})]),
    ('reach-for-target-rebinds-name', '''
@fp.fpy(ctx={ctx})
def main(a0: fp.Real, a1: list[fp.Real]) -> fp.Real:
    i = {lit1}
    row = a1
    s = 0
    for j in range({trips}):
        s = s + i
        for i in a1:
            s = s + i
    for k, i in enumerate(a1):
        s = s + k
    for row in [a1, [i, s]]:
        s = s + len(row)
    return i + s + len(row)
''', [('main', [('a0', 'R'), ('a1', 'L')], {}, {})]),
    ('alias-routes', '''
@fp.fpy
def main(a0: list[list[fp.Real]], a1: list[fp.Real], a2: fp.Real) -> fp.Real:
    row = a0[0]
    sl = a0[{lo}:]
    top = sl[0]
    cons = [a1, row]
    c0 = cons[1]
    t = (a1, row)
    p, q = t
    keep = a1
    for r in a0:
        keep = r
    for i, r2 in enumerate(sl):
        keep = r2
    for r3, r4 in zip(a0, cons[:1]):
        keep = r4
    rs = [r5 for r5 in a0]
    first = rs[0]
    pick = a1 if a2 > 0 else row
    a0[{lo}] = a1
    late = a0[{lo}]
    late[0] = a2
    return row[0] + top[0] + c0[0] + p[0] + q[0] + keep[0] + first[0] + pick[0] + a1[0]
''', [('main', [('a0', 'LL'), ('a1', 'L'), ('a2', 'R')], {'a0': 2, 'a1': 1}, {'a0': 1})]),
    ('alias-deep-store', '''
@fp.fpy
def main(a0: list[list[list[fp.Real]]], a1: fp.Real) -> fp.Real:
    row = [a1, a1]
    a0[{lo}][1] = row
    cell = a0[{lo}][1]
    plane = a0[{lo}]
    other = plane[{hi}]
    cube = [a0, a0[:]]
    cube[1][{lo}][0] = cell
    back = cube[1][{lo}][0]
    for pl in a0:
        pl[0] = other
    last = a0[1][0]
    cell[0] = 7
    return row[0] + back[0] + last[0]
''', [('main', [('a0', 'LLL'), ('a1', 'R')], {}, {})]),
    ('alias-slice-vs-construction', '''
@fp.fpy
def main(a0: list[list[fp.Real]], a1: list[fp.Real]) -> fp.Real:
    sl = a0[:]
    r = sl[0]
    box = [a1]
    b = box[0]
    cp = a1[:]
    nested = [[a1], [cp]]
    inner = nested[0]
    leaf = inner[0]
    return r[0] + b[0] + leaf[0] + cp[0]
''', [('main', [('a0', 'LL'), ('a1', 'L')], {'a0': 1, 'a1': 1}, {'a0': 1})]),
    ('untyped-destructuring-crashes-partial-eval', '''
@fp.fpy
def main(a0: fp.Real) -> fp.Real:
    a, b = [{k0}, {k0}]
    return a + b + a0
''', [('main', [('a0', 'R')], {}, {})]),
    ('frontend-accepts-defuse-crash', '''
@fp.fpy
def main(a0: fp.Real) -> fp.Real:
    if a0 > {k0}:
        return a0
    else:
        y = a0 + 1
    return y
''', [('main', [('a0', 'R')], {}, {})]),
]

FILL = {
    'octx': ['fp.MX_E4M3', 'fp.S1E4M3', 'fp.EFloatContext(3, 6, False, fp.EFloatNanKind.MAX_VAL, 0)'],
    'lit0': ['0', '1', '0.5', '-0.0', 'fp.inf()', '2'],
    'lit1': ['0', '1', '3', '-1', '0.25'],
    'op0': ['*', '+', '-', '/'],
    'op1': ['*', '+', '-'],
    'k0': ['0', '1', '2', '3', '5'],
    'upd': ['x * a0', 'x + a0', 'a0', 'x - x', 'x * 2', 'x / 0', 'abs(x) + 1', 'x', 'a0 * 0'],
    'trips': ['0', '1', '2', '3'],
    'cond': ['fp.isnan(a0)', 'fp.isinf(a0)', 'fp.isfinite(a0)', 'a0 == 0', 'a0 != 0', 'not (a0 == 0)', 'a0 < a1', 'a0 == 1.5',
             'not fp.isnan(a0)', '0 < a0 < a1', 'fp.isnan(a0) or fp.isinf(a0)', 'a0 == a0 and a0 != 0', 'not (a0 != 0)',
             'a0 >= 0', 'not (a0 < 1)', '0 == a0', 'fp.isnormal(a0)'],
    'condx': ['fp.isnan(a0)', 'a0 == 0', 'fp.isinf(a0)', 'a0 != 0', 'a0 < a1'],
    'elts': ['1, 2', '1, 2, 3', '0, 2, 3, 4', '0.5', '1, 2, 3, 4, 5'],
    'elts2': ['1', '1, 2', '7, 8, 9', ''],
    'lo': ['0', '1'],
    'hi': ['0', '1'],
    'store': ['xss[0] = [a0]', 'xss[1] = a1', 'yss[0] = [a0, a0, a0]', 'xss[0][0] = a0', 'pass'],
    'mut': ['xs[0] = a0', 'ys[0] = a0', 'a0 = h0(xs, a0)', 'a0 = h0(ys, a0 + 1)', 'pass'],
    'ctx': ['fp.FP64', 'fp.MPFloatContext(3, fp.RM.RTZ)', 'fp.REAL', 'fp.IEEEContext(4, 8, fp.RM.RNE)', 'fp.MPFixedContext(-2, fp.RM.RNA)'],
    'cupd': ['c + 1', '2', 'c', 'c * 1', 'a0', 'u'],
    'rm': ['RNE', 'RTZ', 'RAZ', 'RTP'],
    'condzip': ['b = (a2 > 0) and (len([x + y for x, y in zip(a0, a1)]) > 0)',
                'b = (a2 > 0) or (len([x + y for x, y in zip(a0, a1)]) >= 0)',
                'b = 0 < a2 < len([x + y for x, y in zip(a0, a1)])',
                'zs = [x + y for e in a0 for x, y in zip(a0, a1)]',
                'zs = [x + y for x, y in zip(a0, a1)] if a2 > 0 else a0',
                'zs = [x + y for i in range({trips}) for x, y in zip(a0, a1)]'],
    'nctx': ['fp.FP16', 'fp.IEEEContext(3, 6, fp.RM.RNE)', 'fp.IEEEContext(4, 8, fp.RM.RTZ)', 'fp.MPFixedContext(-2, fp.RM.RNE)',
             'fp.FixedContext(True, -1, 6, fp.RM.RNE, fp.OV.SATURATE)', 'fp.MPSFloatContext(4, -3, fp.RM.RNE)',
             'fp.MPFloatContext(3, fp.RM.RNE)', 'fp.FP32'],
    'rtest': ['fp.isinf({rx})', 'fp.isnan({rx})', 'fp.isfinite({rx})', 'not fp.isfinite({rx})', '{rx} == 0', '0 == {rx}',
              '{rx} != 0', 'not ({rx} != 0)', '{rx} > 0', '{rx} <= 0', 'not fp.isinf({rx})', '{rx} == 0.0 or fp.isinf({rx})'],
    'rx': ['abs(a0)', '(-a0)', '(a0 + 0)', 'fp.round(a0)', '(a0 * 1)', 'abs(-a0)', '(-abs(a0))', 'a0'],
    'alo': ['i', 'i + 1', '1 + i', 'i', '0'],
    'ahi': ['{an} - i', 'i + 3', 'len(xs) - i', '{an} - i - 1', '{an} - 1 - i', '3 + i'],
    'rlo': ['i', 'i + 1', '{an} - i', 'i - 1'],
    'rhi': ['{an} - i', '10 - i', 'i + 4', '{an} + i'],
    'an': ['7', '8', '9'],
    'xupd': ['x + 5', 'x * 2', 'x + a0', 'x', '7'],
}


def _fill(ch, tmpl):
    out = tmpl
    for _ in range(3):          # a filler may itself contain placeholders
        for k, pool in FILL.items():
            while '{' + k + '}' in out:
                out = out.replace('{' + k + '}', ch.choice(pool), 1)
    return out.lstrip('\n')


def template_cases(ch: Chooser, shard: int, variants: int, n_inputs: int = 6):
    out = []
    for name, tmpl, fdesc in TEMPLATES:
        for v in range(variants):
            src = _fill(ch, tmpl)
            funcs = []
            for fname, params, minlen, minrow in fdesc:
                fi = FuncInfo(fname, params, minlen, minrow, 'R')
                inputs = [(gen_inputs(ch, fi), ch.choice(progen.CALLER_CTXS)) for _ in range(n_inputs)]
                funcs.append((fname, inputs))
            out.append((name, src, funcs))
    return out
