"""
Type-directed generator of FPy *source text* (modules with 0-2 helper functions and `main`).

All random choices go through a `Chooser` so the same generator runs under a seeded PRNG
(bulk, sharded) or under Hypothesis' `draw` (shrinking).  A `Profile` switches productions.

Types:  R real, B bool, L list[real], T pair (R, R), C context.
Scoping follows docs/USAGE.md: a name first bound inside a branch/loop body is not used after it
(unless bound in both arms of an if/else).
"""

from __future__ import annotations

import random
from dataclasses import dataclass, field


class Chooser:
    def int(self, lo, hi):
        raise NotImplementedError

    def choice(self, seq):
        return seq[self.int(0, len(seq) - 1)]

    def bool(self, p=0.5):
        return self.int(0, 999) < int(p * 1000)

    def weighted(self, pairs):
        """pairs: list of (weight:int, value)"""
        tot = sum(w for w, _ in pairs)
        k = self.int(0, tot - 1)
        for w, v in pairs:
            if k < w:
                return v
            k -= w
        return pairs[-1][1]


class RandChooser(Chooser):
    def __init__(self, seed):
        self.r = random.Random(seed)

    def int(self, lo, hi):
        return self.r.randint(lo, hi)


class HypChooser(Chooser):
    def __init__(self, draw):
        from hypothesis import strategies as st
        self.draw = draw
        self.st = st

    def int(self, lo, hi):
        return self.draw(self.st.integers(lo, hi))


# ---------------------------------------------------------------------------

MODES = ['RNE', 'RNA', 'RTP', 'RTN', 'RTZ', 'RAZ', 'RTO', 'RTE']

# context texts; "safe" = small integers 0..8 are exactly representable and k-1 is exact (loop counters)
CTX_POOL = [
    # (text template with {rm}, safe_for_counters)
    ('fp.MPFloatContext(2, fp.RM.{rm})', False),
    ('fp.MPFloatContext(3, fp.RM.{rm})', False),
    ('fp.MPFloatContext(5, fp.RM.{rm})', True),
    ('fp.IEEEContext(3, 6, fp.RM.{rm})', False),
    ('fp.IEEEContext(4, 8, fp.RM.{rm})', True),
    ('fp.IEEEContext(5, 16, fp.RM.{rm})', True),
    ('fp.MPSFloatContext(4, -3, fp.RM.{rm})', True),
    ('fp.MPFixedContext(-2, fp.RM.{rm})', True),
    ('fp.MPFixedContext(-5, fp.RM.{rm})', True),
    ('fp.FixedContext(True, -1, 6, fp.RM.{rm}, fp.OV.SATURATE)', True),
    ('fp.FixedContext(True, -2, 8, fp.RM.{rm}, fp.OV.WRAP)', True),
]
NAMED_CTX = [('fp.FP16', True), ('fp.FP32', True), ('fp.FP64', True), ('fp.REAL', True), ('fp.INTEGER', True)]


@dataclass
class Profile:
    name: str = 'general'
    max_helpers: int = 2
    max_stmts: int = 6
    max_depth: int = 3            # statement nesting
    expr_depth: int = 3
    with_blocks: bool = True
    computed_ctx_args: bool = True
    lists: bool = True
    tuples: bool = True
    while_loops: bool = True
    early_return: bool = True
    helpers_mutate: bool = True
    asserts: bool = True
    sqrt: bool = True
    real_ctx: bool = True
    division: bool = True
    modpow: bool = True           # %, **, fp.fmod and their augmented forms
    comprehension: bool = True
    slices: bool = True
    rm_pool: list = field(default_factory=lambda: list(MODES))
    ctx_pool: list = field(default_factory=lambda: list(CTX_POOL))
    named_pool: list = field(default_factory=lambda: list(NAMED_CTX))
    typed_signature: bool = False     # annotate parameters (analyses / backends need it)
    literals: list = field(default_factory=lambda: ['0', '1', '2', '3', '5', '7', '10', '0.1', '0.5', '1.5', '2.75',
                                                    '0.3', '1e-3', '3.25', '100', '0.125', '1e3', '6.0'])


@dataclass
class Program:
    src: str
    main: str
    params: list            # [(name, type)]
    min_len: dict           # list param -> minimum length the body assumes
    features: set
    helpers: list           # helper names
    ret_type: str = 'R'


class _Fn:
    """State while generating one function body."""
    def __init__(self, g, name, params, known_ctx_safe, is_main):
        self.g = g
        self.name = name
        self.env = {}           # name -> type
        self.len_lb = {}        # list var -> known lower bound of its length
        self.ctxvars = {}       # context var name -> safe?
        self.counter = 0
        self.safe = known_ctx_safe      # is the active context known to be counter-safe?
        self.is_main = is_main
        self.ret_type = 'R'
        self.protected = set()          # loop counters etc.: never reassigned by random statements
        for n, t in params:
            self.env[n] = t

    def fresh(self, prefix):
        self.counter += 1
        return f'{prefix}{self.counter}'


class Gen:
    def __init__(self, ch: Chooser, profile: Profile | None = None):
        self.ch = ch
        self.p = profile or Profile()
        self.features = set()
        self.helpers = []       # (name, params, ret_type, has_ctx, mutates)
        self.lines = []

    # -- contexts ------------------------------------------------------------
    def ctx_text(self, fn: _Fn | None, allow_computed=True):
        """(text, safe)"""
        ch = self.ch
        if fn is not None and fn.ctxvars and ch.bool(0.15):
            n = ch.choice(sorted(fn.ctxvars))
            return n, fn.ctxvars[n]
        if ch.bool(0.3):
            pool = [c for c in self.p.named_pool if self.p.real_ctx or c[0] != 'fp.REAL']
            return ch.choice(pool)
        t, safe = ch.choice(self.p.ctx_pool)
        rm = ch.choice(self.p.rm_pool)
        text = t.format(rm=rm)
        if allow_computed and self.p.computed_ctx_args and fn is not None and ch.bool(0.2):
            # computed constructor arguments, evaluated exactly whatever the active context is
            if text.startswith('fp.IEEEContext(4, 8'):
                text = text.replace('(4, 8', '(1 + 3, 2 * 4')
                self.features.add('computed-ctx-args')
            elif text.startswith('fp.MPFloatContext(5'):
                text = text.replace('(5', '(10 / 2')
                self.features.add('computed-ctx-args')
            elif text.startswith('fp.MPFloatContext(3'):
                text = text.replace('(3', '(0.5 * 6')
                self.features.add('computed-ctx-args')
        return text, safe

    # -- expressions ---------------------------------------------------------
    def vars_of(self, fn, ty):
        return sorted(n for n, t in fn.env.items() if t == ty)

    def expr(self, fn: _Fn, ty: str, d: int) -> str:
        ch = self.ch
        if ty == 'R':
            return self.expr_R(fn, d)
        if ty == 'B':
            return self.expr_B(fn, d)
        if ty == 'L':
            return self.expr_L(fn, d)
        if ty == 'T':
            vs = self.vars_of(fn, 'T')
            if vs and ch.bool(0.4):
                return ch.choice(vs)
            return f'({self.expr_R(fn, d - 1)}, {self.expr_R(fn, d - 1)})'
        raise ValueError(ty)

    def lit(self):
        return self.ch.choice(self.p.literals)

    def index_of(self, fn, lst):
        lb = fn.len_lb.get(lst, 0)
        if lb <= 0:
            return None
        return str(self.ch.int(0, lb - 1))

    def expr_R(self, fn, d):
        ch = self.ch
        vs = self.vars_of(fn, 'R')
        if d <= 0:
            if vs and ch.bool(0.7):
                return ch.choice(vs)
            return self.lit()
        opts = [(30, 'bin'), (12, 'var'), (6, 'lit'), (4, 'neg'), (3, 'abs'), (4, 'round'), (3, 'minmax'), (3, 'ifexp')]
        if self.p.sqrt:
            opts.append((3, 'sqrt'))
        opts.append((3, 'fma'))
        opts.append((2, 'rint'))
        ls = self.vars_of(fn, 'L') if self.p.lists else []
        if ls:
            opts += [(6, 'index'), (3, 'sum'), (2, 'len'), (2, 'lminmax')]
        if self.vars_of(fn, 'T'):
            opts.append((3, 'fst'))
        # main may call every helper; a helper may call the helpers defined before it (chains of depth 2+)
        callable_h = [h for h in self.helpers if h[2] == 'R']
        if callable_h:
            opts.append((8 if fn.is_main else 5, 'call'))
        k = ch.weighted(opts)
        if k == 'var':
            return ch.choice(vs) if vs else self.lit()
        if k == 'lit':
            return self.lit()
        if k == 'bin':
            ops = ['+', '-', '*'] * 8 + (['/'] * 6 if self.p.division else []) + (['%', '**', '**', 'fmod'] if self.p.modpow else [])
            op = ch.choice(ops)
            if op == '**':
                self.features.add('pow')
                return f'({self.expr_R(fn, d - 1)} ** {ch.int(0, 3)})'
            if op == 'fmod':
                self.features.add('fmod')
                return f'fp.fmod(fp.round({self.expr_R(fn, d - 1)}), fp.round({self.expr_R(fn, d - 1)}))'
            if op == '%':
                self.features.add('mod')
                return f'(fp.round({self.expr_R(fn, d - 1)}) % fp.round({self.expr_R(fn, d - 1)}))'
            if op == '%':
                self.features.add('mod')
            return f'({self.expr_R(fn, d - 1)} {op} {self.expr_R(fn, d - 1)})'
        if k == 'neg':
            return f'(-{self.expr_R(fn, d - 1)})'
        if k == 'abs':
            return f'abs({self.expr_R(fn, d - 1)})'
        if k == 'sqrt':
            return f'fp.sqrt(abs({self.expr_R(fn, d - 1)}))' if not fn_real_possible(fn) else f'abs({self.expr_R(fn, d - 1)})'
        if k == 'round':
            return f'fp.round({self.expr_R(fn, d - 1)})'
        if k == 'fma':
            return f'fp.fma({self.expr_R(fn, d - 1)}, {self.expr_R(fn, d - 1)}, {self.expr_R(fn, d - 1)})'
        if k == 'rint':
            return f'fp.{ch.choice(["floor", "ceil", "trunc"])}({self.expr_R(fn, d - 1)})'
        if k == 'minmax':
            f = ch.choice(['min', 'max'])
            n = ch.int(2, 3)
            return f'{f}({", ".join(self.expr_R(fn, d - 1) for _ in range(n))})'
        if k == 'ifexp':
            return f'({self.expr_R(fn, d - 1)} if {self.expr_B(fn, d - 1)} else {self.expr_R(fn, d - 1)})'
        if k == 'index':
            l = ch.choice(ls)
            i = self.index_of(fn, l)
            if i is None:
                return f'sum({l})'
            return f'{l}[{i}]'
        if k == 'sum':
            self.features.add('sum')
            return f'sum({ch.choice(ls)})'
        if k == 'len':
            return f'len({ch.choice(ls)})'
        if k == 'lminmax':
            l = ch.choice(ls)
            if fn.len_lb.get(l, 0) >= 1:
                return f'{ch.choice(["min", "max"])}({l})'
            return f'sum({l})'
        if k == 'fst':
            return f'fp.{ch.choice(["fst", "snd"])}({ch.choice(self.vars_of(fn, "T"))})'
        if k == 'call':
            return self.call_text(fn, ch.choice(callable_h), d)
        raise ValueError(k)

    def call_text(self, fn, h, d):
        name, params, ret, has_ctx, mutates, minlen = h
        args = []
        for pn, pt in params:
            if pt == 'L':
                cands = [l for l in self.vars_of(fn, 'L') if fn.len_lb.get(l, 0) >= minlen.get(pn, 0)]
                if cands:
                    args.append(self.ch.choice(cands))
                else:
                    n = max(minlen.get(pn, 0), 1)
                    args.append('[' + ', '.join(self.expr_R(fn, 0) for _ in range(n)) + ']')
            else:
                args.append(self.expr(fn, pt, d - 1))
        self.features.add('helper-call')
        if not has_ctx:
            self.features.add('helper-without-ctx')
        else:
            self.features.add('helper-with-own-ctx')
        if mutates:
            self.features.add('helper-mutates-list')
        return f'{name}({", ".join(args)})'

    def expr_B(self, fn, d):
        ch = self.ch
        vs = self.vars_of(fn, 'B')
        if d <= 0:
            if vs and ch.bool(0.5):
                return ch.choice(vs)
            return f'({self.expr_R(fn, 0)} {ch.choice(["<", "<=", ">", ">=", "==", "!="])} {self.expr_R(fn, 0)})'
        k = ch.weighted([(10, 'cmp'), (3, 'chain'), (4, 'and'), (4, 'or'), (3, 'not'), (2, 'var'), (2, 'pred'), (1, 'const'), (2, 'anyall')])
        if k == 'cmp':
            return f'({self.expr_R(fn, d - 1)} {ch.choice(["<", "<=", ">", ">=", "==", "!="])} {self.expr_R(fn, d - 1)})'
        if k == 'chain':
            self.features.add('chained-compare')
            return f'({self.expr_R(fn, d - 1)} {ch.choice(["<", "<="])} {self.expr_R(fn, d - 1)} {ch.choice(["<", "<=", "!="])} {self.expr_R(fn, d - 1)})'
        if k == 'and':
            return f'({self.expr_B(fn, d - 1)} and {self.expr_B(fn, d - 1)})'
        if k == 'or':
            return f'({self.expr_B(fn, d - 1)} or {self.expr_B(fn, d - 1)})'
        if k == 'not':
            return f'(not {self.expr_B(fn, d - 1)})'
        if k == 'var':
            return ch.choice(vs) if vs else 'True'
        if k == 'pred':
            return f'fp.{ch.choice(["isnan", "isinf", "isfinite"])}({self.expr_R(fn, d - 1)})'
        if k == 'const':
            return ch.choice(['True', 'False'])
        if k == 'anyall':
            ls = self.vars_of(fn, 'L')
            if ls and self.p.comprehension:
                l = ch.choice(ls)
                v = fn.fresh('q')
                self.features.add('any-all')
                return f'{ch.choice(["any", "all"])}([{v} {ch.choice(["<", ">="])} {self.expr_R(fn, 0)} for {v} in {l}])'
            return 'True'
        raise ValueError(k)

    def expr_L(self, fn, d):
        """(text) of a list[real] expression; callers needing the length bound use expr_L_lb."""
        return self.expr_L_lb(fn, d)[0]

    def expr_L_lb(self, fn, d):
        ch = self.ch
        ls = self.vars_of(fn, 'L')
        opts = [(6, 'literal')]
        if ls:
            opts += [(3, 'var'), (2, 'slice-copy')]
            if self.p.comprehension:
                opts += [(5, 'comp'), (2, 'comp-zip'), (2, 'comp-enum'), (2, 'comp2')]
            if self.p.slices:
                opts += [(3, 'slice')]
        if self.p.comprehension:
            opts.append((2, 'comp-range'))
        opts.append((2, 'range-list'))
        k = ch.weighted(opts)
        if k == 'range-list':       # a bare range(...) is a fresh list every time it is evaluated
            n = ch.int(1, 4)
            self.features.add('range')
            self.features.add('range-list')
            return (f'range({n})', n) if ch.int(0, 2) else (f'range(1, {n + 1})', n)
        if k == 'literal':
            n = ch.int(0, 4)
            return '[' + ', '.join(self.expr_R(fn, max(0, d - 1)) for _ in range(n)) + ']', n
        if k == 'var':
            l = ch.choice(ls)
            self.features.add('list-alias')
            return l, fn.len_lb.get(l, 0)
        if k == 'slice-copy':
            l = ch.choice(ls)
            self.features.add('slice')
            return f'{l}[:]', fn.len_lb.get(l, 0)
        if k == 'slice':
            l = ch.choice(ls)
            lb = fn.len_lb.get(l, 0)
            lo = ch.int(0, lb)
            hi = ch.int(lo, lb)
            self.features.add('slice')
            form = ch.int(0, 2)
            if form == 0:
                return f'{l}[{lo}:{hi}]', hi - lo
            if form == 1:
                return f'{l}[{lo}:]', lb - lo
            return f'{l}[:{hi}]', hi
        v = fn.fresh('e')
        self.features.add('comprehension')
        if k == 'comp':
            l = ch.choice(ls)
            fn.env[v] = 'R'
            body = self.expr_R(fn, max(1, d - 1))
            del fn.env[v]
            return f'[{body} for {v} in {l}]', fn.len_lb.get(l, 0)
        if k == 'comp2':
            l1, l2 = ch.choice(ls), ch.choice(ls)
            w = fn.fresh('e')
            fn.env[v] = 'R'
            fn.env[w] = 'R'
            body = self.expr_R(fn, max(1, d - 1))
            del fn.env[v]
            del fn.env[w]
            self.features.add('comprehension-2gen')
            n2 = ch.int(0, 2)
            return f'[{body} for {v} in {l1} for {w} in range({n2})]', fn.len_lb.get(l1, 0) * n2
        if k == 'comp-range':
            n = ch.int(0, 4)
            fn.env[v] = 'R'
            body = self.expr_R(fn, max(1, d - 1))
            del fn.env[v]
            form = ch.int(0, 2)
            self.features.add('range')
            if form == 0:
                return f'[{body} for {v} in range({n})]', n
            if form == 1:
                return f'[{body} for {v} in range(1, {n + 1})]', n
            return f'[{body} for {v} in range({2 * n}, 0, -2)]', n
        if k == 'comp-zip':
            l1, l2 = ch.choice(ls), ch.choice(ls)
            if l1 != l2:
                # unequal zip is undefined behaviour: only zip a list with itself or a same-length derivative
                l2 = l1
            w = fn.fresh('e')
            fn.env[v] = 'R'
            fn.env[w] = 'R'
            body = self.expr_R(fn, max(1, d - 1))
            del fn.env[v]
            del fn.env[w]
            self.features.add('zip')
            return f'[{body} for {v}, {w} in zip({l1}, {l2})]', fn.len_lb.get(l1, 0)
        if k == 'comp-enum':
            l = ch.choice(ls)
            w = fn.fresh('e')
            fn.env[v] = 'R'
            fn.env[w] = 'R'
            body = self.expr_R(fn, max(1, d - 1))
            del fn.env[v]
            del fn.env[w]
            self.features.add('enumerate')
            return f'[{body} for {v}, {w} in enumerate({l})]', fn.len_lb.get(l, 0)
        raise ValueError(k)

    # -- statements ----------------------------------------------------------
    def block(self, fn: _Fn, ind: str, n_stmts: int, depth: int, out: list, in_loop=False, in_with=0):
        """Appends statements; returns True if the block definitely returned."""
        n0 = len(out)
        for _ in range(n_stmts):
            if self.stmt(fn, ind, depth, out, in_loop, in_with):
                return True
        if len(out) == n0:
            out.append(f'{ind}pass')
        return False

    def new_or_old(self, fn, ty, prefix):
        ch = self.ch
        vs = [v for v in self.vars_of(fn, ty) if v not in fn.protected]
        if vs and ch.bool(0.45):
            return ch.choice(vs), False
        return fn.fresh(prefix), True

    def stmt(self, fn: _Fn, ind, depth, out, in_loop, in_with):
        ch = self.ch
        p = self.p
        opts = [(30, 'assign'), (8, 'aug'), (5, 'assignB')]
        if p.lists:
            opts += [(8, 'assignL'), (6, 'store')]
        if p.tuples:
            opts += [(4, 'tuple'), (3, 'assignT')]
        if depth > 0:
            opts += [(8, 'if'), (5, 'if1'), (8, 'for')]
            if p.with_blocks:
                opts.append((12, 'with'))
            if p.while_loops and fn.safe:
                opts.append((4, 'while'))
        if p.asserts:
            opts.append((1, 'assert'))
        opts.append((1, 'pass'))
        if p.early_return and depth < self.p.max_depth and (in_loop or in_with or depth < self.p.max_depth):
            opts.append((3, 'return'))
        k = ch.weighted(opts)
        ed = p.expr_depth
        if k == 'assign':
            v, new = self.new_or_old(fn, 'R', 'v')
            e = self.expr_R(fn, ed)
            if new and ch.bool(0.1):
                out.append(f'{ind}{v}: fp.Real = {e}')
            else:
                out.append(f'{ind}{v} = {e}')
            fn.env[v] = 'R'
        elif k == 'aug':
            vs = [v for v in self.vars_of(fn, 'R') if v not in fn.protected]
            if not vs:
                return False
            v = ch.choice(vs)
            augs = ["+=", "-=", "*="] * 5 + (["/="] * 3 if p.division else []) + (["%=", "**="] if p.modpow else [])
            ao = ch.choice(augs)
            rhs = str(ch.int(0, 3)) if ao == '**=' else self.expr_R(fn, ed - 1)
            out.append(f'{ind}{v} {ao} {rhs}')
            self.features.add('aug:' + ao)
        elif k == 'assignB':
            v, new = self.new_or_old(fn, 'B', 'b')
            out.append(f'{ind}{v} = {self.expr_B(fn, ed - 1)}')
            fn.env[v] = 'B'
        elif k == 'assignL':
            v, new = self.new_or_old(fn, 'L', 'xs')
            e, lb = self.expr_L_lb(fn, ed - 1)
            out.append(f'{ind}{v} = {e}')
            fn.env[v] = 'L'
            fn.len_lb[v] = lb
        elif k == 'store':
            ls = [l for l in self.vars_of(fn, 'L') if fn.len_lb.get(l, 0) > 0]
            if not ls:
                return False
            l = ch.choice(ls)
            out.append(f'{ind}{l}[{self.index_of(fn, l)}] = {self.expr_R(fn, ed - 1)}')
            self.features.add('list-store')
        elif k == 'tuple':
            a, b = fn.fresh('v'), fn.fresh('v')
            if ch.bool(0.3):
                c = fn.fresh('v')
                out.append(f'{ind}({a}, ({b}, {c})) = ({self.expr_R(fn, ed - 1)}, {self.expr(fn, "T", ed - 1)})')
                fn.env[c] = 'R'
                self.features.add('tuple-destructure-nested')
            else:
                out.append(f'{ind}{a}, {b} = {self.expr(fn, "T", ed - 1)}')
            fn.env[a] = 'R'
            fn.env[b] = 'R'
            self.features.add('tuple-destructure')
        elif k == 'assignT':
            v, new = self.new_or_old(fn, 'T', 't')
            out.append(f'{ind}{v} = ({self.expr_R(fn, ed - 1)}, {self.expr_R(fn, ed - 1)})')
            fn.env[v] = 'T'
        elif k == 'assert':
            v = self.expr_R(fn, 1)
            out.append(f'{ind}assert {v} == {v} or fp.isnan({v})')
        elif k == 'pass':
            out.append(f'{ind}pass')
        elif k == 'return':
            out.append(f'{ind}return {self.expr(fn, fn.ret_type, ed - 1)}')
            if in_with:
                self.features.add('early-return-inside-with')
            if in_loop:
                self.features.add('early-return-inside-loop')
            return True
        elif k == 'if':
            out.append(f'{ind}if {self.expr_B(fn, ed - 1)}:')
            snap = self.snapshot(fn)
            r1 = self.block(fn, ind + '    ', ch.int(1, 3), depth - 1, out, in_loop, in_with)
            env1 = self.snapshot(fn)
            self.restore(fn, snap)
            out.append(f'{ind}else:')
            r2 = self.block(fn, ind + '    ', ch.int(1, 3), depth - 1, out, in_loop, in_with)
            env2 = self.snapshot(fn)
            self.restore(fn, snap)
            # names bound in both arms (with the same type) survive
            if r1 and r2:
                return True
            if r1 or r2:
                # USAGE.md: only names introduced in BOTH arms are accessible afterwards; an arm that
                # returns introduces nothing, so nothing new survives (lengths follow the arm that falls through)
                live = env2 if r1 else env1
                for n in list(fn.len_lb):
                    if n in live[1]:
                        fn.len_lb[n] = live[1][n]
            else:
                for n, t in env1[0].items():
                    if n not in fn.env and env2[0].get(n) == t:
                        fn.env[n] = t
                        if t == 'L':
                            fn.len_lb[n] = min(env1[1].get(n, 0), env2[1].get(n, 0))
                for n in list(fn.len_lb):
                    if n in env1[1] and n in env2[1]:
                        fn.len_lb[n] = min(env1[1][n], env2[1][n])
            self.features.add('if-else')
        elif k == 'if1':
            out.append(f'{ind}if {self.expr_B(fn, ed - 1)}:')
            snap = self.snapshot(fn)
            self.block(fn, ind + '    ', ch.int(1, 3), depth - 1, out, in_loop, in_with)
            after = self.snapshot(fn)
            self.restore(fn, snap)
            for n in list(fn.len_lb):
                if n in after[1]:
                    fn.len_lb[n] = min(fn.len_lb[n], after[1][n])
            self.features.add('if1')
        elif k == 'for':
            snap = self.snapshot(fn)
            ls = self.vars_of(fn, 'L')
            form = ch.weighted([(5, 'list'), (4, 'range'), (2, 'zip'), (2, 'enum')]) if ls else 'range'
            x = fn.fresh('i')
            if form == 'list':
                l = ch.choice(ls)
                out.append(f'{ind}for {x} in {l}:')
                fn.env[x] = 'R'
                if ch.bool(0.3):
                    self.features.add('loop-over-list-may-mutate')
            elif form == 'range':
                n = ch.int(0, 4)
                out.append(f'{ind}for {x} in range({n}):')
                fn.env[x] = 'R'
                if n == 0:
                    self.features.add('zero-trip-loop')
            elif form == 'zip':
                l = ch.choice(ls)
                y = fn.fresh('i')
                out.append(f'{ind}for {x}, {y} in zip({l}, {l}):')
                fn.env[x] = 'R'
                fn.env[y] = 'R'
                self.features.add('zip')
            else:
                l = ch.choice(ls)
                y = fn.fresh('i')
                out.append(f'{ind}for {x}, {y} in enumerate({l}):')
                fn.env[x] = 'R'
                fn.env[y] = 'R'
                self.features.add('enumerate')
            fn.protected.add(x)
            self.block(fn, ind + '    ', ch.int(1, 3), depth - 1, out, True, in_with)
            after = self.snapshot(fn)
            self.restore(fn, snap)
            for n in list(fn.len_lb):
                if n in after[1]:
                    fn.len_lb[n] = min(fn.len_lb[n], after[1][n])
            self.features.add('for')
        elif k == 'while':
            c = fn.fresh('k')
            n = ch.int(0, 3)
            out.append(f'{ind}{c} = {n}')
            fn.env[c] = 'R'
            fn.protected.add(c)
            out.append(f'{ind}while {c} > 0:')
            snap = self.snapshot(fn)
            # the body may not change the active context around the counter update
            if not self.block(fn, ind + '    ', ch.int(1, 2), 0, out, True, in_with):
                out.append(f'{ind}    {c} = {c} - 1')
            after = self.snapshot(fn)
            self.restore(fn, snap)
            for nme in list(fn.len_lb):
                if nme in after[1]:
                    fn.len_lb[nme] = min(fn.len_lb[nme], after[1][nme])
            self.features.add('while')
        elif k == 'with':
            text, safe = self.ctx_text(fn)
            if ch.bool(0.25):
                cv = fn.fresh('c')
                out.append(f'{ind}with {text} as {cv}:')
                self.features.add('with-as')
            else:
                cv = None
                out.append(f'{ind}with {text}:')
            old_safe = fn.safe
            fn.safe = safe
            if in_with:
                self.features.add('nested-with')
            if in_loop:
                self.features.add('with-inside-loop')
            r = self.block(fn, ind + '    ', ch.int(1, 3), depth - 1, out, in_loop, in_with + 1)
            fn.safe = old_safe
            if cv is not None and not r:
                fn.ctxvars[cv] = safe
            self.features.add('with')
            if not r:
                self.features.add('stmt-after-with')
            return r
        return False

    def snapshot(self, fn):
        return (dict(fn.env), dict(fn.len_lb), dict(fn.ctxvars), set(fn.protected))

    def restore(self, fn, snap):
        fn.env = dict(snap[0])
        fn.len_lb = dict(snap[1])
        fn.ctxvars = dict(snap[2])
        fn.protected = set(snap[3])

    # -- functions -----------------------------------------------------------
    def function(self, name, is_main):
        ch = self.ch
        p = self.p
        nparams = ch.int(1, 3)
        params = []
        minlen = {}
        for i in range(nparams):
            t = 'L' if (p.lists and ch.bool(0.35)) else 'R'
            pn = f'{"a" if is_main else "p"}{i}'
            params.append((pn, t))
            if t == 'L':
                minlen[pn] = ch.int(0, 3)
        own_ctx = None
        if not is_main and ch.bool(0.5):
            own_ctx, safe = self.ctx_text(None, allow_computed=False)
        elif is_main and ch.bool(0.15):
            own_ctx, safe = self.ctx_text(None, allow_computed=False)
        else:
            safe = is_main      # main: caller contexts are drawn from the safe pool; helpers w/o ctx inherit unknown
        fn = _Fn(self, name, params, safe, is_main)
        fn.len_lb.update(minlen)
        fn.ret_type = 'R' if (is_main and ch.bool(0.75)) or (not is_main and ch.bool(0.8)) else ch.choice(['L', 'B', 'T', 'R'])
        if not p.lists and fn.ret_type == 'L':
            fn.ret_type = 'R'
        if not p.tuples and fn.ret_type == 'T':
            fn.ret_type = 'R'
        body = []
        nst = ch.int(2, p.max_stmts) if is_main else ch.int(1, 3)
        mutates = False
        if not is_main and p.helpers_mutate and minlen and ch.bool(0.6):
            l = ch.choice(sorted(minlen))
            if minlen[l] > 0:
                body.append(f'    {l}[{ch.int(0, minlen[l] - 1)}] = {self.expr_R(fn, 2)}')
                mutates = True
        returned = self.block(fn, '    ', nst, p.max_depth if is_main else 1, body)
        if not returned:
            body.append(f'    return {self.expr(fn, fn.ret_type, p.expr_depth)}')
        def ann(t):
            return {'R': 'fp.Real', 'L': 'list[fp.Real]', 'B': 'bool', 'T': 'tuple[fp.Real, fp.Real]'}[t]
        if p.typed_signature:
            sig = ', '.join(f'{n}: {ann(t)}' for n, t in params)
            ret = f' -> {ann(fn.ret_type)}'
        else:
            sig = ', '.join(n for n, _ in params)
            ret = ''
        deco = '@fp.fpy' if own_ctx is None else f'@fp.fpy(ctx={own_ctx})'
        self.lines += [deco, f'def {name}({sig}){ret}:'] + body + ['']
        if own_ctx is not None:
            self.features.add('main-with-own-ctx' if is_main else 'helper-declares-ctx')
        return (name, params, fn.ret_type, own_ctx is not None, mutates, minlen)

    def program(self) -> Program:
        nh = self.ch.int(0, self.p.max_helpers)
        for i in range(nh):
            h = self.function(f'h{i}', False)
            self.helpers.append(h)
        m = self.function('main', True)
        return Program(src='\n'.join(self.lines) + '\n', main='main', params=m[1], min_len=m[5],
                       features=set(self.features), helpers=[h[0] for h in self.helpers], ret_type=m[2])


def fn_real_possible(fn):
    # sqrt under REAL is not offered unless exact; a ctx-less function body may run under REAL
    # only if the caller says so, which our callers never do; `with fp.REAL` blocks are tracked by `safe`?
    # Conservative: sqrt is generated only in functions/blocks where REAL cannot be active -- we do not
    # track that precisely, so the evaluator treats inexact sqrt under REAL as Stuck on both sides.
    return False


def gen_program(ch: Chooser, profile: Profile | None = None) -> Program:
    return Gen(ch, profile).program()


# ---------------------------------------------------------------------------
# inputs

from fractions import Fraction

R_POOL = [0, 1, 2, 3, -1, 7, 0.5, 0.1, -2.25, 3.75, 1e-3, 1e10, 100.0, 1.0000001, 0.3, -0.0, 1e-320,
          float('inf'), float('-inf'), float('nan'), Fraction(1, 3), Fraction(-5, 7), 255, 65504.0, 1e-8, 12345.678,
          2 ** 53 + 1, -(2 ** 64) - 3, Fraction(2 ** 70 + 1, 2 ** 10), 6, 12]


def gen_inputs(ch: Chooser, prog: Program, specials=True):
    args = []
    pool = R_POOL if specials else [x for x in R_POOL if not (isinstance(x, float) and (x != x or x in (float('inf'), float('-inf'))))]
    for n, t in prog.params:
        if t == 'R':
            args.append(ch.choice(pool))
        elif t == 'B':
            args.append(ch.bool())
        elif t == 'L':
            k = prog.min_len.get(n, 0) + ch.int(0, 3)
            if ch.bool(0.2):
                k += ch.int(5, 9)        # long enough that indices/lengths are unrepresentable in the narrow contexts
            args.append([ch.choice(pool) for _ in range(k)])
        elif t == 'T':
            args.append((ch.choice(pool), ch.choice(pool)))
    return args


CALLER_CTXS = [None, None, None, 'fp.FP32', 'fp.FP16', 'fp.MPFloatContext(5, fp.RM.RTZ)', 'fp.IEEEContext(4, 8, fp.RM.RAZ)',
               'fp.MPFixedContext(-5, fp.RM.RNA)', 'fp.REAL', 'fp.MPFloatContext(8, fp.RM.RTN)']
