"""
Generators for C10 (rounding-lowering rewrites): source text of `quantize` programs for a context
spec of vlib.formats, boundary operands of the branch thresholds the rewrites introduce, and JSON
encoding of specs / operands for replay files.

A *spec* is the triple understood by `vlib.formats.build`: (kind, args tuple, kwargs dict incl. rm).
"""

from __future__ import annotations

from fractions import Fraction

from . import formats as F
from .denote import NAN, NINF, NZERO, PINF, PZERO, SPECIALS, pow2, show, to_float_obj
from .oracle_round import Model, floor_log2, member

# ---------------------------------------------------------------------------
# JSON encoding of specs and operands


def enc_val(v):
    if isinstance(v, (bool, int)) or v is None:
        return v
    if isinstance(v, Fraction):
        return {'q': show(v)}
    return v          # strings: specials, mode names


def dec_val(v):
    if isinstance(v, dict):
        return Fraction(v['q'])
    return v


def enc_spec(spec):
    kind, args, kw = spec
    return [kind, [enc_val(a) for a in args], {k: enc_val(v) for k, v in sorted(kw.items())}]


def dec_spec(e):
    kind, args, kw = e
    return (kind, tuple(dec_val(a) for a in args), {k: dec_val(v) for k, v in kw.items()})


def enc_operand(d):
    return d if isinstance(d, str) else show(d)


def dec_operand(s):
    return s if s in SPECIALS else Fraction(s)


# ---------------------------------------------------------------------------
# constructor-call text

def _num_text(q: Fraction) -> str:
    """An exact FPy literal for a rational."""
    if q.denominator == 1:
        return str(q.numerator)
    return f'fp.rational({q.numerator}, {q.denominator})'


def _sub_text(name, d, consts):
    """Text of a NaN/inf substitute: the constructors need a `Float`, which only fp.nan()/fp.inf() or a
    captured constant produce inside a program."""
    if d == NAN:
        return 'fp.nan()'
    if d == PINF:
        return 'fp.inf()'
    consts[name] = to_float_obj(d)
    return name


def _opts_text(kw, consts, flags=('enable_nan', 'enable_inf', 'enable_neg_zero')):
    out = []
    for k in flags:
        if k in kw:
            out.append(f'{k}={kw[k]}')
    for k, cname in (('nan_value', 'NV'), ('inf_value', 'IV')):
        if kw.get(k) is not None:
            out.append(f'{k}={_sub_text(cname, kw[k], consts)}')
    return ''.join(', ' + o for o in out)


def ctor_text(spec):
    """(text, consts) with `text` a constructor call evaluating to the context inside an FPy program, or
    (None, {}) where the program text cannot spell it (EFloatContext: the interpreter turns the nan-kind
    enumeration into a number; `neg_maxval`: needs a RealFloat, which no expression yields)."""
    kind, args, kw = spec
    consts = {}
    rm = f'fp.RM.{kw["rm"]}' if 'rm' in kw else None
    ov = f'fp.OV.{kw["overflow"]}' if 'overflow' in kw else None
    if kind == 'real':
        return 'fp.REAL', consts
    if kind == 'efloat' or kw.get('neg_maxval') is not None:
        return None, {}
    if kind == 'mp':
        return f'fp.MPFloatContext({args[0]}, {rm}{_opts_text(kw, consts)})', consts
    if kind == 'mps':
        return f'fp.MPSFloatContext({args[0]}, {args[1]}, {rm}{_opts_text(kw, consts)})', consts
    if kind == 'mpb':
        return (f'fp.MPBFloatContext({args[0]}, {args[1]}, {_num_text(args[2])}, {rm}, {ov or "fp.OV.OVERFLOW"}'
                f'{_opts_text(kw, consts)})'), consts
    if kind == 'ieee':
        return f'fp.IEEEContext({args[0]}, {args[1]}, {rm}, {ov or "fp.OV.OVERFLOW"})', consts
    if kind == 'mpfixed':
        return f'fp.MPFixedContext({args[0]}, {rm}{_opts_text(kw, consts)})', consts
    if kind == 'mpbfixed':
        return (f'fp.MPBFixedContext({args[0]}, {_num_text(args[1])}, {rm}, {ov or "fp.OV.WRAP"}'
                f'{_opts_text(kw, consts)})'), consts
    if kind == 'fixed':
        return (f'fp.FixedContext({args[0]}, {args[1]}, {args[2]}, {rm}, {ov or "fp.OV.WRAP"}'
                f'{_opts_text(kw, consts, flags=())})'), consts
    if kind == 'smfixed':
        return (f'fp.SMFixedContext({args[0]}, {args[1]}, {rm}, {ov or "fp.OV.WRAP"}'
                f'{_opts_text(kw, consts, flags=())})'), consts
    if kind == 'exp':
        iv = ''
        if kw.get('inf_value') is not None:
            iv = f', inf_value={_sub_text("IV", kw["inf_value"], consts)}'
        return f'fp.ExpContext({args[0]}, {args[1]}, {rm}, {ov or "fp.OV.OVERFLOW"}{iv})', consts
    raise ValueError(kind)


FORMS = ('assign', 'return', 'cast', 'castret')

# Guards for the `guard:<k>` forms: the SAME rounding sits in both arms of an `if` whose condition tests the class / sign /
# magnitude of the operand through and / or / not, so the program is still the rounding function on every operand while the
# rewrites see each site under a different (claimed) value class.
GUARDS = (
    'fp.isnan(x) or x > 1000',
    'fp.isfinite(x) and x != 0',
    'fp.isinf(x) or x == 0',
    'not fp.isnan(x) and x < 0',
    'x == 0 or fp.isnan(x)',
    'x > 1 or x < -1',
    'fp.isnan(x) or fp.isinf(x)',
    'not (fp.isfinite(x) and x > 0)',
    'x >= 0 and not fp.isinf(x)',
    'fp.isinf(x) and x > 0 or fp.isnan(x)',
    # plain comparisons, literal on either side: what a comparison that holds / fails says about NaN, zero and the infinities
    'x != 0', '0 != x', 'x == 0', '0 == x', 'not x == 0', 'not x != 0',
    'x < 0', '0 < x', 'x <= 0', '0 >= x', 'x >= 1', '1 > x', 'x != 1', 'x == 1',
    'x != 0 and x < 4', 'x != 0 or x > 4', '-1 < x < 1', 'not (x < 0)', 'not (0 <= x)',
)


# Value sets with a statically known member -0.0 (and controls without one), as (shape, statements binding z, uses `c`).
CONSTSETS = {
    'negzero-literal': ('    z = -0.0\n', False),
    'negzero-or-one': ('    with fp.FP64:\n        z = -0.0 if c else 1.0\n', True),
    'negzero-or-poszero': ('    with fp.FP64:\n        z = -0.0 if c else 0.0\n', True),
    'negzero-or-half-real': ('    z = -0.0 if c else 0.5\n', True),
    'three-members': ('    with fp.FP64:\n        z = (-0.0 if c else 2.0) if c else -1.0\n', True),
    'poszero-or-one': ('    with fp.FP64:\n        z = 0.0 if c else 1.0\n', True),
    'minus-two-or-three': ('    z = -2 if c else 3\n', True),
}


def constset_src(shape: str, op: str, scope_text: str) -> str:
    """`z` bound to a small constant set, then `with <scope>: y = round(z) | cast(z)`; returns y."""
    bind, uses_c = CONSTSETS[shape]
    sig = 'def q(c: bool) -> fp.Real:' if uses_c else 'def q() -> fp.Real:'
    return f'@fp.fpy(ctx=fp.REAL)\n{sig}\n{bind}    with {scope_text}:\n        y = fp.{op}(z)\n    return y\n'


def quantize_src(ctx_text: str, form: str, annotated: bool) -> str:
    """Source of the one-rounding program `q`."""
    sig = 'def q(x: fp.Real) -> fp.Real:' if annotated else 'def q(x):'
    head = f'@fp.fpy(ctx=fp.REAL)\n{sig}\n    with {ctx_text}:\n'
    if form == 'assign':
        return head + '        y = fp.round(x)\n    return y\n'
    if form == 'return':
        return head + '        return fp.round(x)\n'
    if form == 'cast':
        return head + '        y = fp.cast(x)\n    return y\n'
    if form == 'castret':
        return head + '        return fp.cast(x)\n'
    if form.startswith('guard:'):
        g = GUARDS[int(form.split(':')[1])]
        arm = f'        with {ctx_text}:\n            y = fp.round(x)\n'
        return f'@fp.fpy(ctx=fp.REAL)\n{sig}\n    if {g}:\n{arm}    else:\n{arm}    return y\n'
    raise ValueError(form)


ARITH_OPS = {
    'round': ('fp.round(x)', 1), 'cast': ('fp.cast(x)', 1), 'neg': ('-x', 1), 'abs': ('abs(x)', 1),
    'add': ('x + z', 2), 'sub': ('x - z', 2), 'mul': ('x * z', 2),
    'mulround': ('fp.round(x * z)', 2), 'addmul': ('x * z + x', 2),
}


def arith_src(op: str, scope_text: str) -> str:
    """`with <scope>: y = <op>` over one or two annotated arguments."""
    expr, n = ARITH_OPS[op]
    params = 'x: fp.Real' if n == 1 else 'x: fp.Real, z: fp.Real'
    return (f'@fp.fpy(ctx=fp.REAL)\ndef q({params}) -> fp.Real:\n    with {scope_text}:\n'
            f'        y = {expr}\n    return y\n')


# ---------------------------------------------------------------------------
# operands

def _ulp_at(m: Model, a: Fraction) -> Fraction:
    """Spacing of the unbounded grid of m at magnitude a > 0."""
    if m.p is None:
        return pow2(m.nmin + 1)
    e = floor_log2(a)
    n = e - m.p if m.nmin is None else max(m.nmin, e - m.p)
    return pow2(n + 1)


def boundaries(m: Model):
    """[(name, value, ulp)] the positive thresholds a lowering of m branches on."""
    out = []
    if m.kind in ('real', 'exp'):
        if m.kind == 'exp':
            out.append(('minsub', pow2(m.nmin), pow2(m.nmin - 1)))
            out.append(('maxval', pow2(m.p_emax), pow2(m.p_emax - 1)))
        else:
            out.append(('binade', Fraction(1), Fraction(1, 8)))
        return out
    if m.nmin is not None:
        u0 = pow2(m.nmin + 1)
        out.append(('minsub', u0, u0))                       # smallest positive member: one ulp from zero
        out.append(('halfsub', u0 / 2, u0))                  # the tie between zero and it
        if m.p is not None:
            out.append(('emin', pow2(m.nmin + m.p), u0))     # subnormal / normal boundary 2^emin
    elif m.p is not None:
        out.append(('binade', Fraction(1), pow2(-m.p)))
        out.append(('binade', Fraction(4), pow2(2 - m.p)))
    seen = set()
    for name, mv in (('maxval', m.pos_max), ('negmaxval', None if m.neg_max is None else -m.neg_max)):
        if mv is None or mv in seen:
            continue
        seen.add(mv)
        if mv == 0:
            continue
        u = _ulp_at(m, mv)
        inf = mv + u
        out.append((name, mv, u))
        out.append(('infval', inf, u))
        out.append(('ovthr', mv + u / 2, u))
        if m.p is not None:
            top = pow2(floor_log2(mv) + 1)                   # first magnitude whose logb exceeds emax: upper clamp end
            if top != inf:
                out.append(('clamptop', top, u))
            out.append(('clamptop', 2 * top, 2 * u))
        else:
            out.append(('wrap', 2 * mv + u, u))              # once around a wrapping format
    return out


def tags_of(m: Model, d, bnds=None) -> tuple:
    """Classes of an operand denotation relative to the thresholds of m (for the histogram / NT rule)."""
    if d in (NAN, PINF, NINF):
        return ('special',)
    if d in (PZERO, NZERO):
        return ('zero',)
    a = abs(d)
    tags = []
    for name, b, u in (bnds if bnds is not None else boundaries(m)):
        if abs(a - b) <= u:
            tags.append('near:' + ('maxval' if name == 'negmaxval' else name))
    if m.nmin is not None and a <= pow2(m.nmin + 1):
        tags.append('near:zero')
    if d.denominator & (d.denominator - 1):
        tags.append('nondyadic')
    return tuple(dict.fromkeys(tags))


def operands_for(m: Model, rng, fill=24, nondyadic=True):
    """Deterministic list of operand denotations for m: every threshold b of `boundaries(m)` with
    b, b -+ ulp/8, b -+ ulp (the neighbouring members), one non-dyadic perturbation, in both signs where the
    format may be asymmetric or the mode is directed; a seeded sample of vlib.formats.breakpoint_operands;
    far beyond / far below; both zeros, both infinities, NaN."""
    bnds = boundaries(m)
    ops = []
    for name, b, u in bnds:
        pts = [b, b - u / 8, b + u / 8, b + u, b - u, b + u / 2, b - u / 2]
        if nondyadic:
            pts.append(b + u / 3 / (1 << 40) if rng.random() < 0.5 else b - u / 3 / (1 << 40))
        for i, q in enumerate(pts):
            if q <= 0:
                continue
            ops.append(q)
            if i < 3 or rng.random() < 0.5:
                ops.append(-q)
    pool = F.breakpoint_operands(m, max_points=30)
    if not nondyadic:
        pool = [q for q in pool if F.dyadic(q)]
    if len(pool) > fill:
        pool = rng.sample(pool, fill)
    for q in pool:
        ops.append(q if rng.random() < 0.5 else -q)
    seen = set()
    out = []
    for q in ops:
        if q not in seen and (nondyadic or F.dyadic(q)):
            seen.add(q)
            out.append(q)
    out.sort()
    return out + [PZERO, NZERO, PINF, NINF, NAN]


def carrier(d, which='Float'):
    """Runtime object for a denotation.  Non-dyadic rationals only exist as Fraction."""
    if isinstance(d, str):
        return to_float_obj(d)
    if which == 'Fraction' or not F.dyadic(d):
        return Fraction(d)
    if which == 'float':
        try:
            x = float(d)
            if Fraction(x) == d:
                return x
        except OverflowError:
            pass
    return to_float_obj(d)


def members_of(m: Model, cap, rng):
    """Member denotations of the format mirrored by m (all of a small bounded one; bottom/top/sample else),
    including the specials and zeros it has."""
    if m.kind == 'real':
        m2 = Model('mp', p=3)
        g = F.grid_points(m2, -2, 3)
    else:
        lo, hi = F.window(m)
        g = [q for q in F.grid_points(m, lo, hi) if member(m, q)]
    vals = []
    for q in g:
        vals.append(q)
        if member(m, -q):
            vals.append(-q)
    vals = sorted(set(vals), key=lambda v: (abs(v), v))
    if len(vals) > cap:
        # a wrong containment claim shows at the extremes: keep the smallest and the largest magnitudes
        k = cap // 4
        mid = vals[k:-k]
        vals = vals[:k] + rng.sample(mid, cap - 2 * k) + vals[-k:]
    vals.sort()
    out = list(vals) + [PZERO]
    if m.has_neg_zero:
        out.append(NZERO)
    if m.has_inf:
        out += [PINF, NINF]
    if m.has_nan:
        out.append(NAN)
    return out
