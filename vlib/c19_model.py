"""
C19 helpers: my own reading of the FPy statement tree (independent of fpy2.transform.path), watermark
sets, structural diff of two program versions, and a reference model of cursor forwarding written from
the docstrings of `EditLog` / `Edit` (fpy2/transform/cursor.py).

Paths are plain tuples: a *statement path* is `(i0, f1, i1, f2, i2, ...)` (odd length: index, then
alternating block-field / index); a *block path* is the even-length prefix (`()` = the function body).
"""

from __future__ import annotations

from fpy2.ast import fpyast as A
from fpy2.utils import NamedId


# ---------------------------------------------------------------------------
# statement tree

def blocks_of(stmt):
    """[(field, StmtBlock)] of a statement, in source order."""
    if isinstance(stmt, A.IfStmt):
        return [('ift', stmt.ift), ('iff', stmt.iff)]
    if isinstance(stmt, (A.If1Stmt, A.WhileStmt, A.ForStmt, A.ContextStmt)):
        return [('body', stmt.body)]
    return []


def walk_block(block, prefix=()):
    """(stmt_path_tuple, stmt) for every statement below `block`, a statement before its blocks."""
    for i, s in enumerate(block.stmts):
        here = prefix + (i,)
        yield here, s
        for field, sub in blocks_of(s):
            yield from walk_block(sub, here + (field,))


def walk(func_ast):
    yield from walk_block(func_ast.body, ())


def get_block(func_ast, bpath):
    block = func_ast.body
    k = 0
    while k < len(bpath):
        stmt = block.stmts[bpath[k]]
        field = bpath[k + 1]
        block = dict(blocks_of(stmt))[field]
        k += 2
    return block


def get_stmt(func_ast, spath):
    return get_block(func_ast, spath[:-1]).stmts[spath[-1]]


def tuple_of_path(p):
    """fpy2 StmtPath / BlockPath -> tuple (duck-typed on .parent/.index/.field)."""
    out = []
    while True:
        name = type(p).__name__
        if name == 'FuncBody':
            break
        if name == 'StmtPath':
            out.append(p.index)
        elif name == 'SubBlock':
            out.append(p.field)
        else:
            raise TypeError(f'not a statement/block path: {p!r}')
        p = p.parent
    return tuple(reversed(out))


def path_of_tuple(t):
    from fpy2.transform import FuncBody
    p = FuncBody()
    for k, x in enumerate(t):
        p = p.stmt(x) if k % 2 == 0 else p.block(x)
    return p


def expr_stmt_tuple(epath):
    """The statement tuple an fpy2 ExprPath hangs off."""
    p = epath
    while type(p).__name__ == 'ExprPath':
        p = p.parent
    return tuple_of_path(p)


def is_under(p, q):
    """statement path p lies strictly beneath statement path q"""
    return len(p) > len(q) and p[:len(q)] == q


# ---------------------------------------------------------------------------
# names and watermarks

def _binding_names(t, out):
    if isinstance(t, NamedId):
        out.add(str(t))
    elif isinstance(t, A.TupleBinding):
        for e in t.elts:
            _binding_names(e, out)


def bound_names(stmt, out=None):
    """Names bound anywhere in `stmt` (assignment / loop / `as` targets), recursively."""
    if out is None:
        out = set()
    if isinstance(stmt, A.Assign):
        _binding_names(stmt.target, out)
    elif isinstance(stmt, A.ForStmt):
        _binding_names(stmt.target, out)
    elif isinstance(stmt, A.ContextStmt):
        _binding_names(stmt.target, out)
    for _, b in blocks_of(stmt):
        for s in b.stmts:
            bound_names(s, out)
    return out


def bound_multiset(stmts, out=None):
    """name -> number of binding occurrences, over a list of statements."""
    if out is None:
        out = {}
    for stmt in stmts:
        own = set()
        if isinstance(stmt, (A.Assign, A.ForStmt, A.ContextStmt)):
            _binding_names(stmt.target, own)
        for n in own:
            out[n] = out.get(n, 0) + 1
        for _, b in blocks_of(stmt):
            bound_multiset(b.stmts, out)
    return out


def marks_of(stmts, universe):
    out = set()
    for s in stmts:
        bound_names(s, out)
    return out & universe


# ---------------------------------------------------------------------------
# expressions (reflection over slots: no use of fpy2.transform.path.sub_exprs)

def _slots(node):
    seen = []
    for k in type(node).__mro__:
        for s in getattr(k, '__slots__', ()):
            if s not in seen:
                seen.append(s)
    return seen


def expr_children(e):
    """Direct sub-expressions in *visit* order (the order fpy2.ast.visitor.DefaultVisitor reaches them, read off
    its _visit_* methods): an if-expression's condition before its arms, a comprehension's iterables before its
    element, a list reference's value before its index.  Everything else holds one list of operands."""
    if isinstance(e, A.IfExpr):
        return [e.cond, e.ift, e.iff]
    if isinstance(e, A.ListComp):
        return list(e.iterables) + [e.elt]
    if isinstance(e, A.ListRef):
        return [e.value, e.index]
    if isinstance(e, A.ListSlice):
        return [x for x in (e.value, e.start, e.stop) if x is not None]
    out = []
    for s in _slots(e):
        if s.startswith('_'):
            continue
        try:
            v = getattr(e, s)
        except AttributeError:
            continue
        if isinstance(v, A.Expr):
            out.append(v)
        elif isinstance(v, (list, tuple)):
            for x in v:
                if isinstance(x, A.Expr):
                    out.append(x)
                elif isinstance(x, tuple):
                    out.extend(y for y in x if isinstance(y, A.Expr))
    return out


def expr_preorder(e):
    yield e
    for c in expr_children(e):
        yield from expr_preorder(c)


def diff_roots(a, b):
    """The top-most sub-expressions of `a` that are not reproduced in `b` at the same position."""
    ca, cb = expr_children(a), expr_children(b)
    if type(a) is not type(b) or len(ca) != len(cb):
        return [a]
    out = []
    for x, y in zip(ca, cb):
        out.extend(diff_roots(x, y))
    if not out and not a.is_equiv(b):
        return [a]
    return out


def stmt_own_exprs(stmt):
    """The expressions a statement itself holds (not those of statements in its blocks)."""
    if isinstance(stmt, (A.Assign, A.EffectStmt, A.ReturnStmt)):
        return [stmt.expr]
    if isinstance(stmt, A.IndexedAssign):
        return list(stmt.indices) + [stmt.expr]
    if isinstance(stmt, (A.If1Stmt, A.IfStmt, A.WhileStmt)):
        return [stmt.cond]
    if isinstance(stmt, A.ForStmt):
        return [stmt.iterable]
    if isinstance(stmt, A.ContextStmt):
        return [stmt.ctx]
    if isinstance(stmt, A.AssertStmt):
        return [stmt.test] + ([stmt.msg] if stmt.msg is not None else [])
    return []


def all_exprs(func_ast):
    """(stmt_path, stmt, expr) in visit order: statement's own expressions outermost-first, then its blocks."""
    for p, s in walk(func_ast):
        for top in stmt_own_exprs(s):
            for e in expr_preorder(top):
                yield p, s, e


# ---------------------------------------------------------------------------
# comparing statements

def _fmt_target(t):
    return t.format() if hasattr(t, 'format') else str(t)


def header_equiv(a, b):
    """Same statement apart from what its blocks hold."""
    if type(a) is not type(b):
        return False
    if isinstance(a, A.ForStmt):
        return _fmt_target(a.target) == _fmt_target(b.target) and a.iterable.is_equiv(b.iterable)
    if isinstance(a, (A.WhileStmt, A.If1Stmt, A.IfStmt)):
        return a.cond.is_equiv(b.cond)
    if isinstance(a, A.ContextStmt):
        return _fmt_target(a.target) == _fmt_target(b.target) and a.ctx.is_equiv(b.ctx)
    return a.is_equiv(b)


def skeleton(stmt):
    """Expression-blind shape: class, names bound by the statement itself, shapes of its blocks."""
    own = set()
    if isinstance(stmt, (A.Assign, A.ForStmt, A.ContextStmt)):
        _binding_names(stmt.target, own)
    return (type(stmt).__name__, tuple(sorted(own)),
            tuple((f, tuple(skeleton(s) for s in b.stmts)) for f, b in blocks_of(stmt)))


def expr_shape(e):
    return (type(e).__name__,) + tuple(expr_shape(c) for c in expr_children(e))


def shape(stmt):
    """Name-blind shape incl. expression classes (to compare two derivations that differ in fresh names)."""
    return (type(stmt).__name__, tuple(expr_shape(e) for e in stmt_own_exprs(stmt)),
            tuple((f, tuple(shape(s) for s in b.stmts)) for f, b in blocks_of(stmt)))


def same_stmt(a, b, exprs_preserved=True):
    if exprs_preserved:
        return a.is_equiv(b)
    return skeleton(a) == skeleton(b)


# ---------------------------------------------------------------------------
# my reading of an edit log

class Log:
    """Plain-data view of an fpy2 EditLog."""

    def __init__(self, editlog):
        self.edits = []
        for e in editlog.edits:
            self.edits.append((tuple_of_path(e.block_path), e.index, e.removed, e.inserted))
        self.dirty = {tuple_of_path(p) for p in editlog.exprs_rewritten}
        self.exprs_preserved = bool(editlog.exprs_preserved)

    def describe(self):
        return {'edits': [list(map(_j, e)) for e in self.edits], 'dirty': sorted(map(list, self.dirty)),
                'exprs_preserved': self.exprs_preserved}


def _j(x):
    return list(x) if isinstance(x, tuple) else x


def model_forward(log: Log, p):
    """Where statement path `p` of the source lands, per the documented semantics:

      * an edit replaces `removed` statements at `index` of its block by `inserted`; every later statement of
        that block shifts by inserted - removed; shifts of one block accumulate; enclosing blocks shift first;
      * an insertion (removed = 0) at index i goes ahead of statement i;
      * a replaced statement forwards to the region that replaced it (a single statement if inserted == 1),
        a deleted one (inserted == 0) does not forward, nor does a statement inside a replaced one.

    Returns ('stmt', path) | ('region', block_path, start, stop) | ('raise', why).
    """
    new = ()
    for level in range(0, len(p), 2):
        bpath = p[:level]
        i = p[level]
        leaf = level == len(p) - 1
        shift = 0
        containing = None
        for (b, idx, rem, ins) in log.edits:
            if b != bpath:
                continue
            if idx + rem <= i:
                shift += ins - rem
            elif idx <= i:
                containing = (idx, rem, ins)
        if containing is not None:
            if not leaf:
                return ('raise', 'inside-rewritten')
            idx, rem, ins = containing
            if ins == 0:
                return ('raise', 'deleted')
            if ins == 1:
                return ('stmt', new + (idx + shift,))
            return ('region', new, idx + shift, idx + shift + ins)
        new = new + (i + shift,)
        if not leaf:
            new = new + (p[level + 1],)
    return ('stmt', new)


def model_forward_region(log: Log, bpath, start, stop):
    """A run of statements: each member forwarded, images re-joined if they stay one run of one block."""
    if stop <= start:
        return ('raise', 'empty')
    spans = []
    blocks = set()
    for i in range(start, stop):
        r = model_forward(log, bpath + (i,))
        if r[0] == 'raise':
            return r
        if r[0] == 'stmt':
            blocks.add(r[1][:-1])
            spans.append((r[1][-1], r[1][-1] + 1))
        else:
            blocks.add(r[1])
            spans.append((r[2], r[3]))
    if len(blocks) != 1:
        return ('raise', 'split-up')
    for a, b in zip(spans, spans[1:]):
        if b[0] not in (a[1], a[0]):
            return ('raise', 'split-up')
    lo, hi = spans[0][0], max(s[1] for s in spans)
    blk = blocks.pop()
    if hi - lo == 1:
        return ('stmt', blk + (lo,))
    return ('region', blk, lo, hi)


def touched_kind(log: Log, p):
    """How the log says statement `p` of the source was affected:
    'replaced' | 'inside' (beneath a replaced one) | 'dirty' (expressions rewritten, statement kept) |
    'ancestor' (an edit or dirty statement lies beneath it) | None (untouched)."""
    for (b, idx, rem, ins) in log.edits:
        if rem == 0:
            continue
        for k in range(idx, idx + rem):
            q = b + (k,)
            if p == q:
                return 'replaced'
            if is_under(p, q):
                return 'inside'
    if p in log.dirty:
        return 'dirty'
    for (b, idx, rem, ins) in log.edits:
        if len(b) > len(p) and b[:len(p)] == p:
            return 'ancestor'
    for d in log.dirty:
        if is_under(d, p):
            return 'ancestor'
    return None


# ---------------------------------------------------------------------------
# structural diff along an expected path (independent of any edit log)

def _blocks_equiv(a, b):
    return len(a.stmts) == len(b.stmts) and all(x.is_equiv(y) for x, y in zip(a.stmts, b.stmts))


def locate_change(f_ast, g_ast, spath, length=1):
    """Check that `g_ast` is `f_ast` with exactly the run of `length` statements at `spath` replaced by some
    non-empty run X and nothing else changed.  Returns (None, X, n) on success or (reason, None, None)."""
    fb, gb = f_ast.body, g_ast.body
    for level in range(0, len(spath), 2):
        i = spath[level]
        leaf = level == len(spath) - 1
        if not leaf:
            if len(fb.stmts) != len(gb.stmts):
                return (f'block at depth {level // 2} changed length outside the site', None, None)
            for j, (x, y) in enumerate(zip(fb.stmts, gb.stmts)):
                if j != i and not x.is_equiv(y):
                    return (f'sibling {j} of an enclosing statement changed (depth {level // 2})', None, None)
            x, y = fb.stmts[i], gb.stmts[i]
            if not header_equiv(x, y):
                return (f'enclosing statement changed itself (depth {level // 2})', None, None)
            field = spath[level + 1]
            nfb = ngb = None
            for (fx, bx), (fy, by) in zip(blocks_of(x), blocks_of(y)):
                if fx == field:
                    nfb, ngb = bx, by
                elif not _blocks_equiv(bx, by):
                    return (f'other arm `{fx}` of an enclosing statement changed', None, None)
            fb, gb = nfb, ngb
            continue
        n = len(gb.stmts) - len(fb.stmts) + length
        if n < 1:
            return (f'site replaced by {n} statements', None, None)
        for j in range(i):
            if not fb.stmts[j].is_equiv(gb.stmts[j]):
                return (f'statement {j} before the site changed', None, None)
        tail_f = fb.stmts[i + length:]
        tail_g = gb.stmts[i + n:]
        if len(tail_f) != len(tail_g):
            return ('tail length mismatch', None, None)
        for j, (x, y) in enumerate(zip(tail_f, tail_g)):
            if not x.is_equiv(y):
                return (f'statement {j} after the site changed', None, None)
        X = gb.stmts[i:i + n]
        if n == length and all(x.is_equiv(y) for x, y in zip(fb.stmts[i:i + length], X)):
            return ('nothing changed at the site', None, None)
        return (None, X, n)
    return ('empty path', None, None)
