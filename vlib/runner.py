"""
Common runner for all property checks.

    python -m vlib.runner <ID> [--tier quick|thorough] [--replay PATH] [--jobs N]

A property module `props/<id>_*.py` exports

    PROPERTY   : 'C01'
    LEVEL      : evidence level (default 'exploration')
    RULE       : text: how cases are generated and what makes one non-trivial
    ASSUMPTIONS: list[str]
    FLOORS     : {class_name: min_fraction_of_evaluations}   (optional)
    def selftest() -> None                 (optional; raise => exit 2)
    def shards(tier, seed) -> list          picklable shard descriptions
    def run_shard(shard) -> Result          executed in a worker process
    def replay(case) -> list[Failure dict]  re-runs one saved case without any generator

`Result` is the accumulator defined below.  Exit status: 0 held / 1 violation /
2 harness error.
"""

from __future__ import annotations

import argparse
import hashlib
import importlib
import json
import multiprocessing as mp
import os
import signal
import sys
import time
import traceback
from pathlib import Path

HERE = Path(__file__).resolve().parent.parent
KNOWN = HERE / 'known_findings.json'

MAX_SAMPLES = 12
MAX_FAIL_PER_BUCKET = 3


def jsonable(x):
    """Best-effort conversion of a case to plain JSON data."""
    from fractions import Fraction
    if isinstance(x, (str, int, bool)) or x is None:
        return x
    if isinstance(x, float):
        return repr(x)
    if isinstance(x, Fraction):
        return f'{x.numerator}/{x.denominator}'
    if isinstance(x, dict):
        return {str(k): jsonable(v) for k, v in x.items()}
    if isinstance(x, (list, tuple, set, frozenset)):
        return [jsonable(v) for v in x]
    return repr(x)


def h64(*parts) -> int:
    m = hashlib.blake2b(repr(parts).encode(), digest_size=8)
    return int.from_bytes(m.digest(), 'big')


class Result:
    """Accumulator returned by a shard (picklable, mergeable)."""

    def __init__(self):
        self.evaluations = 0
        self.nt_count = 0            # non-trivial cases counted as distinct by construction
        self.nt_hashes = set()       # non-trivial cases de-duplicated by hash
        self.classes = {}            # histogram of case classes
        self.samples = []            # a few actual cases
        self.nt_samples = []
        self.failures = {}           # bucket -> list of failure dicts
        self.fail_counts = {}        # bucket -> count
        self.skipped = {}            # reason -> count (not accepted / undecided / excluded)
        self.extra = {}              # free-form numeric counters merged by addition
        self.budget_exhausted = False
        self.extra_state = {}        # not merged

    # -- recording ---------------------------------------------------------
    def case(self, n=1):
        self.evaluations += n

    def cls(self, name, n=1):
        self.classes[name] = self.classes.get(name, 0) + n

    def skip(self, reason, n=1):
        self.skipped[reason] = self.skipped.get(reason, 0) + n

    def count(self, name, n=1):
        self.extra[name] = self.extra.get(name, 0) + n

    def nontrivial(self, key=None):
        """Record one non-trivial case.  With `key`, distinctness is by hash of key;
        without, the caller asserts cases are distinct by construction."""
        if key is None:
            self.nt_count += 1
        else:
            self.nt_hashes.add(h64(key))

    def sample(self, case, nt=False):
        lst = self.nt_samples if nt else self.samples
        if len(lst) < MAX_SAMPLES // 2:
            lst.append(jsonable(case))

    def maybe_sample(self, case, nt=False):
        """Sparse deterministic sampling that never starves: keeps the 1st, 2nd, 4th, 8th, ... case offered."""
        k = '_ms_nt' if nt else '_ms'
        n = self.extra_state.get(k, 0) + 1
        self.extra_state[k] = n
        if n & (n - 1) == 0:
            self.sample(case, nt=nt)

    def fail(self, bucket, case, expected=None, got=None, note=None):
        self.fail_counts[bucket] = self.fail_counts.get(bucket, 0) + 1
        lst = self.failures.setdefault(bucket, [])
        if len(lst) < MAX_FAIL_PER_BUCKET:
            lst.append({'bucket': bucket, 'case': jsonable(case),
                        'expected': jsonable(expected), 'got': jsonable(got),
                        'note': note})

    # -- merging -----------------------------------------------------------
    def merge(self, o: 'Result'):
        self.evaluations += o.evaluations
        self.nt_count += o.nt_count
        self.nt_hashes |= o.nt_hashes
        for k, v in o.classes.items():
            self.classes[k] = self.classes.get(k, 0) + v
        for k, v in o.skipped.items():
            self.skipped[k] = self.skipped.get(k, 0) + v
        for k, v in o.extra.items():
            self.extra[k] = self.extra.get(k, 0) + v
        for k, v in o.fail_counts.items():
            self.fail_counts[k] = self.fail_counts.get(k, 0) + v
        for k, v in o.failures.items():
            lst = self.failures.setdefault(k, [])
            for f in v:
                if len(lst) < MAX_FAIL_PER_BUCKET:
                    lst.append(f)
        for s in o.samples:
            if len(self.samples) < MAX_SAMPLES // 2:
                self.samples.append(s)
        for s in o.nt_samples:
            if len(self.nt_samples) < MAX_SAMPLES // 2:
                self.nt_samples.append(s)
        self.budget_exhausted |= o.budget_exhausted

    @property
    def distinct_nontrivial(self):
        return self.nt_count + len(self.nt_hashes)


# ---------------------------------------------------------------------------

def find_module(pid: str):
    pid = pid.upper()
    for p in sorted((HERE / 'props').glob(f'{pid.lower()}_*.py')):
        return importlib.import_module(f'props.{p.stem}')
    raise SystemExit(f'no property module for {pid}')


def _init_worker():
    signal.signal(signal.SIGINT, signal.SIG_IGN)
    sys.setrecursionlimit(10000)


def _run_one(args):
    modname, shard = args
    mod = importlib.import_module(modname)
    try:
        r = mod.run_shard(shard)
        return ('ok', r)
    except BaseException:   # harness error inside a worker
        return ('err', f'shard {shard!r}:\n{traceback.format_exc()}')


def load_known():
    if not KNOWN.exists():
        return []
    return json.loads(KNOWN.read_text())['findings']


def tree_sha():
    try:
        import subprocess
        repo = os.environ.get('VERIF_REPO', '/repo')
        return subprocess.run(['git', '-C', repo, 'rev-parse', 'HEAD'], capture_output=True,
                              text=True, timeout=10).stdout.strip()
    except Exception:
        return ''


def write_evidence(mod, pid, tier, seed, res: Result, wall, nviol, known_hit, extra_cov=None):
    cov = {
        'evaluations': res.evaluations,
        'distinct_nontrivial': res.distinct_nontrivial,
        'rule': mod.RULE,
        'samples': (res.nt_samples + res.samples)[:MAX_SAMPLES],
        'classes': dict(sorted(res.classes.items())),
        'skipped': dict(sorted(res.skipped.items())),
        'counters': dict(sorted(res.extra.items())),
        'failure_buckets': dict(sorted(res.fail_counts.items())),
        'known_findings_hit': sorted(known_hit),
        'budget_exhausted': res.budget_exhausted,
        'exhaustive': bool(getattr(mod, 'EXHAUSTIVE', {}).get(tier, False)),
        'tree_sha': tree_sha(),
    }
    level = getattr(mod, 'LEVEL', 'exploration')
    if level == 'translation_validation':
        cov['programs'] = res.extra.get('programs', res.evaluations)
        cov['disagreements_checked'] = res.extra.get('disagreements_checked', 0)
    if extra_cov:
        cov.update(extra_cov)
    ev = {
        'property_id': pid, 'tier': tier, 'seed': seed, 'level': level,
        'coverage': cov,
        'assumptions': list(getattr(mod, 'ASSUMPTIONS', [])),
        'wall_s': round(wall, 2), 'violations': nviol,
    }
    out = HERE / 'evidence' / f'{pid}.json'
    out.parent.mkdir(exist_ok=True)
    out.write_text(json.dumps(ev, indent=1, sort_keys=False) + '\n')


def main(argv=None):
    ap = argparse.ArgumentParser()
    ap.add_argument('pid')
    ap.add_argument('--tier', default=os.environ.get('VERIF_TIER', 'quick'),
                    choices=['quick', 'thorough'])
    ap.add_argument('--replay')
    ap.add_argument('--jobs', type=int, default=int(os.environ.get('VERIF_JOBS', '16')))
    ap.add_argument('--no-evidence', action='store_true')
    args = ap.parse_args(argv)
    pid = args.pid.upper()
    try:
        seed = int(os.environ.get('VERIF_SEED', '1'))
    except ValueError:
        seed = 1

    t0 = time.time()
    try:
        import fpy2
        repo = os.path.realpath(os.environ.get('VERIF_REPO', '/repo'))
        if not os.path.realpath(fpy2.__file__).startswith(repo):
            print(f'HARNESS-ERROR fpy2 imported from {fpy2.__file__}, expected under {repo}')
            return 2
        mod = find_module(pid)
        if hasattr(mod, 'selftest'):
            mod.selftest()
    except SystemExit:
        raise
    except BaseException:
        print('HARNESS-ERROR during import/selftest')
        traceback.print_exc()
        return 2

    known = [k for k in load_known() if k['property'] == pid]
    open_buckets = {k['bucket']: k for k in known if k.get('status') == 'open'}

    # ------------------------------------------------------------------ replay
    if args.replay:
        data = json.loads(Path(args.replay).read_text())
        try:
            fails = mod.replay(data['case'])
        except BaseException:
            print('HARNESS-ERROR during replay')
            traceback.print_exc()
            return 2
        if fails:
            for f in fails:
                print(f'REPLAY-FAIL bucket={f["bucket"]} expected={f.get("expected")} got={f.get("got")}')
            print(f'VIOLATION property={pid} replay={args.replay}')
            return 1
        print(f'replay ok: {args.replay}')
        return 0

    # --------------------------------------------------------------- main run
    res = Result()
    errors = []
    # VERIF_FAILFAST=1 (sensitivity tooling only): stop at the first shard with an unlisted failure; the run is
    # then incomplete, so it writes no evidence and does not judge generator floors
    failfast = os.environ.get('VERIF_FAILFAST') == '1'
    if failfast:
        args.no_evidence = True
    try:
        # committed replays first (regression tier)
        rdir = HERE / 'replays' / pid
        if rdir.is_dir() and hasattr(mod, 'replay'):
            for rp in sorted(rdir.glob('*.json')):
                data = json.loads(rp.read_text())
                if data.get('auto'):
                    continue     # written by an earlier run of this check, not committed input
                for f in mod.replay(data['case']) or []:
                    res.fail(f['bucket'], f['case'], f.get('expected'), f.get('got'),
                             note=f'replay {rp.name}')
                res.count('replays_run')

        shards = mod.shards(args.tier, seed)
        jobs = max(1, min(args.jobs, len(shards)))
        work = [(mod.__name__, s) for s in shards]
        if jobs == 1:
            outs = map(_run_one, work)
            for st, r in outs:
                if st == 'ok':
                    res.merge(r)
                else:
                    errors.append(r)
        else:
            ctx = mp.get_context('fork')
            with ctx.Pool(jobs, initializer=_init_worker, maxtasksperchild=getattr(mod, 'MAXTASKS', None)) as pool:
                for st, r in pool.imap_unordered(_run_one, work, chunksize=1):
                    if st == 'ok':
                        res.merge(r)
                    else:
                        errors.append(r)
                    if failfast and (errors or any(b not in open_buckets for b in res.failures)):
                        pool.terminate()
                        break
    except BaseException:
        errors.append(traceback.format_exc())

    wall = time.time() - t0
    if errors:
        print(f'HARNESS-ERROR {len(errors)} worker error(s); first:')
        print(errors[0])
        return 2

    # generator health: coverage floors
    floors = getattr(mod, 'FLOORS', {})
    if isinstance(floors, dict) and args.tier in floors and isinstance(floors[args.tier], dict):
        floors = floors[args.tier]
    starved = []
    for name, frac in floors.items():
        have = res.classes.get(name, 0)
        need = frac * max(1, res.evaluations) if frac < 1 else frac
        if have < need:
            starved.append((name, have, need))

    # classify failures
    nviol = 0
    known_hit = []
    lines = []
    for bucket in sorted(res.failures):
        fl = res.failures[bucket]
        if bucket in open_buckets:
            known_hit.append(bucket)
            k = open_buckets[bucket]
            lines.append(f'KNOWN-FINDING: property={pid} {bucket}: {k.get("witness", "")} '
                         f'({res.fail_counts[bucket]} case(s) this run)')
            continue
        nviol += 1
        f = fl[0]
        rdir = HERE / 'replays' / pid
        rdir.mkdir(parents=True, exist_ok=True)
        name = f'auto_{h64(bucket, f["case"]):016x}.json'
        rp = rdir / name
        rp.write_text(json.dumps({'property': pid, 'auto': True, 'bucket': bucket, 'case': f['case'],
                                  'expected': f['expected'], 'got': f['got'], 'note': f['note'],
                                  'seed': seed, 'tier': args.tier, 'tree_sha': tree_sha(),
                                  'count_in_run': res.fail_counts[bucket]}, indent=1) + '\n')
        lines.append(f'FAIL bucket={bucket} count={res.fail_counts[bucket]} case={json.dumps(f["case"])[:400]} '
                     f'expected={json.dumps(f["expected"])[:200]} got={json.dumps(f["got"])[:200]}')
        lines.append(f'VIOLATION property={pid} replay={rp.relative_to(HERE)}')

    if not args.no_evidence:
        try:
            write_evidence(mod, pid, args.tier, seed, res, wall, nviol, known_hit)
        except BaseException:
            print('HARNESS-ERROR writing evidence')
            traceback.print_exc()
            return 2

    print(f'{pid} tier={args.tier} seed={seed} evaluations={res.evaluations} '
          f'distinct_nontrivial={res.distinct_nontrivial} wall={wall:.1f}s '
          f'classes={dict(sorted(res.classes.items()))} skipped={dict(sorted(res.skipped.items()))} '
          f'counters={dict(sorted(res.extra.items()))}')
    for ln in lines:
        print(ln)
    if nviol:
        return 1
    if starved and not failfast:
        print(f'HARNESS-ERROR generator starved classes (name, have, need): {starved}')
        return 2
    if res.evaluations < 1 or res.distinct_nontrivial < 2:
        print('HARNESS-ERROR vacuous run (no non-trivial cases)')
        return 2
    if not (res.samples or res.nt_samples):
        print('HARNESS-ERROR no sample cases were recorded (evidence would be invalid)')
        return 2
    return 0


if __name__ == '__main__':
    sys.exit(main())
