"""
C12, second layer: FPCore text that does NOT come from the FPy compiler, read back with
`Function.from_fpcore`, against two references.

  * `gen_core(ch)`   a small grammar of scalar FPCore: numeric operations, `let` / `let*` with >= 2 bindings whose
                     right-hand sides mention names rebound earlier in the same form (swaps), `if`, `while` / `while*`
                     and `for` / `for*` with >= 2 carried variables whose updates read each other, full and PARTIAL
                     `(! :precision .. :round .. e)` annotations around sub-expressions, an `(array ..)` result.
  * `RefEval`        an evaluator of that grammar written from the FPCore 2.0 standard with exact rationals and the
                     independent rounding oracle (vlib.oracle_ops / oracle_round): `let`, `while`, `for` bind in
                     parallel, the starred forms sequentially; an annotation updates the properties it names and
                     inherits the others; number literals are rounded under the properties in force; variables are not.
                     `alt=` switches on one deliberately wrong reading at a time; they are only used to NAME the root
                     cause of a disagreement (bucket), never to accept one.
"""

from __future__ import annotations

from fractions import Fraction

import titanfp.fpbench.fpcast as fpc

from vlib import formats, oracle_ops, oracle_round
from vlib.denote import NAN, NINF, NZERO, PINF, PZERO, den
from vlib.progen import Chooser

PRECS = ['binary16', 'binary32', 'binary64', '(float 5 12)', '(float 4 8)', '(float 8 16)', '(float 3 6)']
PREC_PARAMS = {'binary16': (5, 16), 'binary32': (8, 32), 'binary64': (11, 64), 'binary128': (15, 128)}
ROUNDS = {'nearestEven': 'RNE', 'nearestAway': 'RNA', 'toPositive': 'RTP', 'toNegative': 'RTN', 'toZero': 'RTZ', 'awayZero': 'RAZ'}
NUMS = ['0', '1', '2', '3', '5', '0.5', '1.5', '0.1', '2.25', '0.3', '7', '10']
ARGS = ['x', 'y', 'z']


class CoreGen:
    def __init__(self, ch: Chooser):
        self.ch = ch
        self.n = 0
        self.features = set()

    def fresh(self, p):
        self.n += 1
        return f'{p}{self.n}'

    def props(self):
        ch = self.ch
        k = ch.weighted([(5, 'full'), (3, 'round'), (2, 'prec')])
        out = []
        if k in ('full', 'prec'):
            out.append(f':precision {ch.choice(PRECS)}')
        if k in ('full', 'round'):
            out.append(f':round {ch.choice(sorted(ROUNDS))}')
        if k != 'full':
            self.features.add('partial-annotation')
        self.features.add('annotation')
        return ' '.join(out)

    def combo(self, names):
        """An expression whose value separates the bound names (distinct weights)."""
        out = names[0]
        for i, n in enumerate(names[1:]):
            out = f'({self.ch.choice(["+", "-"])} (* {out} {i + 2}) {n})'
        return out

    def atom(self, env):
        if env and self.ch.bool(0.7):
            return self.ch.choice(env)
        return self.ch.choice(NUMS)

    def cond(self, env, d):
        ch = self.ch
        c = f'({ch.choice(["<", "<=", ">", ">=", "==", "!="])} {self.expr(env, d - 1)} {self.expr(env, d - 1)})'
        if ch.bool(0.2):
            c = f'({ch.choice(["and", "or"])} {c} ({ch.choice(["<", ">"])} {self.atom(env)} {self.atom(env)}))'
        return c

    def expr(self, env, d, loops=False):
        ch = self.ch
        if d <= 0:
            return self.atom(env)
        opts = [(24, 'bin'), (8, 'atom'), (3, 'neg'), (3, 'fabs'), (3, 'sqrt'), (3, 'fma'), (6, 'if'), (12, 'let'), (9, 'ann'), (8, 'scoped')]
        if loops:
            opts += [(12, 'while'), (12, 'for')]
        k = ch.weighted(opts)
        if k == 'atom':
            return self.atom(env)
        if k == 'bin':
            return f'({ch.choice(["+", "-", "*", "/", "+", "-"])} {self.expr(env, d - 1)} {self.expr(env, d - 1)})'
        if k == 'neg':
            return f'(- {self.expr(env, d - 1)})'
        if k == 'fabs':
            return f'(fabs {self.expr(env, d - 1)})'
        if k == 'sqrt':
            return f'(sqrt (fabs {self.expr(env, d - 1)}))'
        if k == 'fma':
            return f'(fma {self.expr(env, d - 1)} {self.expr(env, d - 1)} {self.expr(env, d - 1)})'
        if k == 'if':
            self.features.add('if')
            return f'(if {self.cond(env, d)} {self.expr(env, d - 1, loops)} {self.expr(env, d - 1, loops)})'
        if k == 'scoped':
            # a PARTIAL annotation in a statement-position sub-expression (if arm, let body, loop update / result)
            # under an enclosing annotation: the inner one must inherit what it does not name
            outer = f':precision {ch.choice([p for p in PRECS if p != "binary64"])}'
            if ch.bool(0.6):
                outer += f' :round {ch.choice(sorted(ROUNDS))}'

            def part(e):
                if ch.bool(0.7):
                    pr = f':round {ch.choice(sorted(ROUNDS))}'
                else:
                    pr = f':precision {ch.choice(PRECS)}'
                return f'(! {pr} ({ch.choice(["/", "/", "*"])} {e} {ch.choice(["3", "7", "0.3", "0.1"])}))'
            form = ch.choice(['if', 'if', 'let', 'while', 'for'])
            self.features.add('partial-annotation')
            self.features.add('scoped-partial:' + form)
            a, b = self.expr(env, d - 1), self.expr(env, d - 1)
            if form == 'if':
                inner = f'(if {self.cond(env, 1)} {part(a)} (+ {part(b)} {self.atom(env)}))'
            elif form == 'let':
                t = self.fresh('t')
                inner = f'(let ([{t} (/ {a} 3)]) (if (< {t} {self.atom(env)}) {part(t)} {part(b)}))'
            elif form == 'while':
                kv, av = self.fresh('k'), self.fresh('a')
                inner = f'(while (> {kv} 0) ([{kv} {ch.int(1, 2)} (- {kv} 1)] [{av} {a} {part(av)}]) (+ {av} {part(b)}))'
            else:
                iv, av = self.fresh('i'), self.fresh('a')
                inner = f'(for ([{iv} {ch.int(1, 2)}]) ([{av} {a} {part(f"(+ {av} {iv})")}]) (if (< {av} 0) {part(av)} {part(b)}))'
            return f'(! {outer} {inner})'
        if k == 'ann':
            if ch.bool(0.6):
                # an inexact operation directly under the annotation, so the properties in force are observable
                inner = f'({ch.choice(["/", "/", "*", "+"])} {self.expr(env, d - 1, loops)} {ch.choice(["3", "7", "0.3", "0.1"])})'
            else:
                inner = self.expr(env, d - 1, loops)
            return f'(! {self.props()} {inner})'
        if k == 'let':
            star = ch.bool(0.4)
            n = ch.int(2, 3) if ch.bool(0.8) else 1
            names = []
            binds = []
            cur = list(env)
            for _ in range(n):
                cand = [v for v in env if v not in names]
                v = ch.choice(cand) if cand and ch.bool(0.65) else self.fresh('t')
                # right-hand sides read the names of the enclosing scope -- including those this form rebinds
                rhs = self.expr(cur if star else env, d - 1)
                earlier = [u for u in names if u in env]
                if earlier and ch.bool(0.7):
                    # mention a name this form has already rebound: parallel and sequential binding differ here
                    rhs = f'({ch.choice(["+", "-", "*"])} {ch.choice(earlier)} {rhs})'
                binds.append(f'[{v} {rhs}]')
                names.append(v)
                if v not in cur:
                    cur.append(v)
            if n >= 2:
                self.features.add('let*-multi' if star else 'let-multi')
            body = f'({ch.choice(["+", "-"])} {self.combo(names)} {self.expr(cur, d - 1, loops)})'
            return f'({"let*" if star else "let"} ({" ".join(binds)}) {body})'
        if k in ('while', 'for'):
            star = ch.bool(0.45)
            nc = ch.int(2, 3)
            carried = []
            for _ in range(nc):
                cand = [v for v in env if v not in carried]
                carried.append(ch.choice(cand) if cand and ch.bool(0.5) else self.fresh('a'))
            binds = []
            scope_init = list(env)
            inner = list(env)
            for v in carried:
                if v not in inner:
                    inner.append(v)
            if k == 'while':
                kv = self.fresh('k')
                inner_k = inner + [kv]
                head = f'(> {kv} 0)'
                binds.append(f'[{kv} {ch.int(1, 3)} (- {kv} 1)]')
                upd_env = inner_k
            else:
                iv = self.fresh('i')
                upd_env = inner + [iv]
            for v in carried:
                init = self.expr(scope_init, 1)
                # updates read the other carried variables: parallel and sequential update differ
                others = [c for c in carried if c != v]
                o = ch.choice(others)
                upd = f'({ch.choice(["+", "-", "*"])} {ch.choice([v, o])} {ch.choice(["(* " + o + " 0.5)", o, "(+ " + o + " 1)", self.expr(upd_env, 1)])})'
                binds.append(f'[{v} {init} {upd}]')
                if star and v not in scope_init:
                    scope_init.append(v)
            body = f'({ch.choice(["+", "-"])} {self.combo(carried)} {self.expr(inner, d - 1)})'
            self.features.add(('while*' if star else 'while') if k == 'while' else ('for*' if star else 'for'))
            if k == 'while':
                return f'({"while*" if star else "while"} {head} ({" ".join(binds)}) {body})'
            return f'({"for*" if star else "for"} ([{iv} {ch.int(1, 3)}]) ({" ".join(binds)}) {body})'
        raise ValueError(k)


def gen_core(ch: Chooser):
    """(text, nargs, features)"""
    g = CoreGen(ch)
    nargs = ch.int(2, 3)
    env = ARGS[:nargs]
    top = ''
    if ch.bool(0.25):
        top = f' :precision {ch.choice(["binary32", "binary64", "(float 5 12)"])} :round {ch.choice(sorted(ROUNDS))}'
        g.features.add('core-props')
    def top_expr(d):
        e = g.expr(env, d, loops=True)
        if not (g.features & {'while', 'while*', 'for', 'for*', 'let-multi', 'let*-multi', 'partial-annotation'}):
            e = f'(+ {e} {g.expr(env, d, loops=True)})'
        return e
    if ch.bool(0.25):
        body = f'(array {top_expr(3)} {g.expr(env, 2, loops=True)})'
    else:
        body = top_expr(3)
    return f'(FPCore ({" ".join(env)}){top} {body})', nargs, g.features


# ---------------------------------------------------------------------------------------------------------
# reference evaluator (FPCore 2.0 standard, exact)

class NoVerdict(Exception):
    pass


_MODELS = {}


def model(es, nbits, rm):
    k = (es, nbits, rm)
    if k not in _MODELS:
        _MODELS[k] = formats.mk_ieee(es, nbits, rm)[1]
    return _MODELS[k]


def _py(v):
    if isinstance(v, fpc.Data):
        return _py(v.value)
    if isinstance(v, (tuple, list)):
        return [_py(x) for x in v]
    return str(v.value) if hasattr(v, 'value') else str(v)


def update_ctx(ctx, props, inherit=True):
    if inherit is True:
        es, nbits, rm = ctx
    elif inherit == 'round-only':
        es, nbits, rm = 11, 64, ctx[2]
    else:
        es, nbits, rm = 11, 64, 'RNE'
    if 'precision' in props:
        p = _py(props['precision'])
        if isinstance(p, list):
            if p[0] != 'float':
                raise NoVerdict('precision')
            es, nbits = int(p[1]), int(p[2])
        elif p in PREC_PARAMS:
            es, nbits = PREC_PARAMS[p]
        else:
            raise NoVerdict('precision')
    if 'round' in props:
        r = _py(props['round'])
        if r not in ROUNDS:
            raise NoVerdict('round')
        rm = ROUNDS[r]
    return (es, nbits, rm)


def _one(out):
    if out is None or out.raises or len(out.values) != 1:
        raise NoVerdict('open')
    return next(iter(out.values))


def _cmp_key(d):
    if d in (PZERO, NZERO):
        return Fraction(0)
    return d


def compare(op, a, b):
    if a == NAN or b == NAN:
        return op == '!='
    ka, kb = _cmp_key(a), _cmp_key(b)

    def lt(u, v):
        if u == v:
            return False
        if u == NINF or v == PINF:
            return True
        if u == PINF or v == NINF:
            return False
        return u < v
    if op == '<':
        return lt(ka, kb)
    if op == '>':
        return lt(kb, ka)
    if op == '<=':
        return ka == kb or lt(ka, kb)
    if op == '>=':
        return ka == kb or lt(kb, ka)
    if op == '==':
        return ka == kb
    return ka != kb


ARITH = [(fpc.Add, 'add'), (fpc.Sub, 'sub'), (fpc.Mul, 'mul'), (fpc.Div, 'div'), (fpc.Neg, 'neg'), (fpc.Fabs, 'abs'),
         (fpc.Sqrt, 'sqrt'), (fpc.Fma, 'fma')]
CMPS = [(fpc.LT, '<'), (fpc.GT, '>'), (fpc.LEQ, '<='), (fpc.GEQ, '>='), (fpc.EQ, '=='), (fpc.NEQ, '!=')]


class RefEval:
    def __init__(self, alt=None, fuel=20000):
        self.alt = alt          # None | 'let-sequential' | 'loop-sequential' | 'annotation-no-inherit' | 'let-parallel*'
        self.fuel = fuel

    def run(self, core, args):
        ctx = update_ctx((11, 64, 'RNE'), core.props or {})
        env = {name: den(a) for (name, _, _), a in zip(core.inputs, args)}
        return self.ev(core.e, env, ctx)

    def ev(self, e, env, ctx):
        self.fuel -= 1
        if self.fuel < 0:
            raise NoVerdict('fuel')
        if isinstance(e, fpc.Var):
            return env[e.value]
        if isinstance(e, fpc.Integer):
            return _one(oracle_round.expect(model(*ctx), den(int(e.value))))
        if isinstance(e, fpc.Decnum):
            return _one(oracle_round.expect(model(*ctx), Fraction(str(e.value))))
        if isinstance(e, fpc.Ctx):
            inherit = {'annotation-no-inherit': False, 'annotation-no-inherit/precision': 'round-only'}.get(self.alt, True)
            return self.ev(e.body, env, update_ctx(ctx, e.props, inherit=inherit))
        if isinstance(e, fpc.If):
            return self.ev(e.then_body if self.ev(e.cond, env, ctx) else e.else_body, env, ctx)
        if isinstance(e, fpc.Let):
            star = isinstance(e, fpc.LetStar)
            if self.alt == 'let-sequential':
                star = True
            new = dict(env)
            for name, val in e.let_bindings:
                new[name] = self.ev(val, new if star else env, ctx)
            return self.ev(e.body, new, ctx)
        if isinstance(e, fpc.While):
            star = isinstance(e, fpc.WhileStar) or self.alt == 'loop-sequential'
            cur = dict(env)
            for name, init, _ in e.while_bindings:
                cur[name] = self.ev(init, cur if star else env, ctx)
            while self.ev(e.cond, cur, ctx):
                nxt = dict(cur)
                for name, _, upd in e.while_bindings:
                    nxt[name] = self.ev(upd, nxt if star else cur, ctx)
                cur = nxt
            return self.ev(e.body, cur, ctx)
        if isinstance(e, fpc.For):
            star = isinstance(e, fpc.ForStar) or self.alt == 'loop-sequential'
            if len(e.dim_bindings) != 1:
                raise NoVerdict('dims')
            iname, n = e.dim_bindings[0]
            n = self.ev(n, env, ctx)
            if n == PZERO:
                n = Fraction(0)
            if not isinstance(n, Fraction) or n.denominator != 1 or n < 0:
                raise NoVerdict('dim')
            cur = dict(env)
            for name, init, _ in e.while_bindings:
                cur[name] = self.ev(init, cur if star else env, ctx)
            for i in range(int(n)):
                cur[iname] = den(i)
                nxt = dict(cur)
                for name, _, upd in e.while_bindings:
                    nxt[name] = self.ev(upd, nxt if star else cur, ctx)
                cur = nxt
            return self.ev(e.body, cur, ctx)
        if isinstance(e, fpc.Array):
            return ('S',) + tuple(self.ev(c, env, ctx) for c in e.children)
        if isinstance(e, fpc.And):
            return all(self.ev(c, env, ctx) for c in e.children)
        if isinstance(e, fpc.Or):
            return any(self.ev(c, env, ctx) for c in e.children)
        if isinstance(e, fpc.Not):
            return not self.ev(e.children[0], env, ctx)
        for cls, op in CMPS:
            if type(e) is cls:
                if len(e.children) != 2:
                    raise NoVerdict('n-ary compare')
                return compare(op, self.ev(e.children[0], env, ctx), self.ev(e.children[1], env, ctx))
        for cls, op in ARITH:
            if type(e) is cls:
                a = [self.ev(c, env, ctx) for c in e.children]
                return _one(oracle_ops.expect_op(model(*ctx), op, a))
        raise NoVerdict(f'node {type(e).__name__}')


def ref_eval(core, args, alt=None):
    """('value', den) | ('none', why)"""
    try:
        return ('value', RefEval(alt).run(core, args))
    except NoVerdict as e:
        return ('none', str(e))
    except (KeyError, RecursionError) as e:
        return ('none', type(e).__name__)


ALTS = ['let-sequential', 'loop-sequential', 'annotation-no-inherit', 'annotation-no-inherit/precision']
