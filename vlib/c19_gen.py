"""
C19 program generator: *watermarked* FPy source text.

Every generated statement of `main` binds a program-unique name `<letter><nn>x` (`m07x = ...`,
`for i03x in ...`, `with C as c05x`), never rebound anywhere else, so "which original statement does this
statement descend from" is decided by the watermark names bound inside it.  The only statements binding
no watermark are loop counters (`k04y = 2`, `k04y = k04y - 1`) and the final `return`.  Names introduced
in an inner block are not used after it.  No name ends in a digit, so fpy2's `Gensym` (which versions a
name by a numeric suffix) can never produce a watermark.

All choices go through a vlib.progen Chooser (seeded PRNG or Hypothesis draw).
"""

from __future__ import annotations

HELPERS = '''K0 = 3
GC0 = fp.MPBFixedContext(-4, fp.RealFloat.from_int(100))
GC1 = fp.FP16
GC2 = fp.MPFixedContext(-3, nan_value=fp.Float.from_int(0))

@fp.fpy
def h0(p, q):
    r = p * q
    return r + q

@fp.fpy
def h1(p):
    s = h0(p, 2)
    return s + 1

@fp.fpy
def h2(p):
    if p > 0:
        return p
    return p + 1

@fp.fpy(ctx=fp.FP32)
def h3(p):
    return p * 2

@fp.fpy
def h4(ps: list[fp.Real]):
    qs = [p + 1 for p in ps]
    return qs

'''

# rounding contexts: a mix so that every rounding rewrite has sites and refusals
ROUND_CTXS = [
    'fp.FP16', 'fp.FP32', 'fp.IEEEContext(5, 16, fp.RM.RTZ)', 'fp.MPFixedContext(-8)',
    'fp.MPFixedContext(-8, enable_nan=True, enable_inf=True)', 'fp.FixedContext(True, -4, 16)',
    'fp.SMFixedContext(-4, 12)', 'fp.REAL', 'fp.MPFloatContext(5)', 'fp.MPSFloatContext(5, -10)',
    'fp.FixedContext(True, -4, 16, fp.RM.RNE, fp.OV.SATURATE)', 'fp.FixedContext(False, -2, 8)',
    'GC2', 'GC0', 'GC1', 'fp.INTEGER',
]
PLAIN_CTXS = ['fp.FP16', 'fp.FP32', 'fp.MPFloatContext(8)', 'fp.IEEEContext(5, 16, fp.RM.RTZ)', 'fp.REAL', 'fp.FP64']

FOCI = ['for', 'while', 'call', 'round', 'insert', 'rewrite', 'mixed']

#            assign for while round with if
WEIGHTS = {
    'for':     (3, 6, 1, 1, 1, 2),
    'while':   (3, 1, 6, 1, 1, 2),
    'call':    (7, 2, 2, 1, 1, 2),
    'round':   (2, 2, 1, 8, 1, 2),
    'insert':  (5, 2, 1, 0, 5, 2),
    'rewrite': (7, 2, 1, 0, 1, 2),
    'mixed':   (3, 3, 2, 3, 1, 2),
}


class WGen:
    def __init__(self, ch, focus):
        self.ch = ch
        self.focus = focus
        self.n = 0
        self.lines = []
        self.real_depth = 0          # inside `with fp.REAL` (insert focus)

    # -- names -------------------------------------------------------------
    def fresh(self, prefix, suffix='x'):
        s = f'{prefix}{self.n:02d}{suffix}'
        self.n += 1
        return s

    def emit(self, depth, text):
        self.lines.append('    ' * (depth + 1) + text)

    # -- expressions -------------------------------------------------------
    def leaf(self, env):
        ch = self.ch
        r = ch.int(0, 9)
        if r < 7 and env:
            return ch.choice(env)
        if r == 7 and self.focus in ('call', 'mixed', 'for'):
            return 'K0'
        return str(ch.int(1, 5))

    def var(self, env):
        return self.ch.choice(env)

    def call(self, env, depth):
        ch = self.ch
        which = ch.weighted([(4, 'h0'), (3, 'h1'), (2, 'h2'), (2, 'h3')])
        if which == 'h0':
            return f'h0({self.expr(env, depth + 1)}, {self.expr(env, depth + 1)})'
        return f'{which}({self.expr(env, depth + 1)})'

    def expr(self, env, depth=0, calls=None):
        ch = self.ch
        if calls is None:
            calls = {'call': 35, 'mixed': 12, 'while': 5, 'for': 5}.get(self.focus, 0)
        if depth >= 2:
            return self.leaf(env)
        r = ch.int(0, 99)
        if r < calls:
            return self.call(env, depth)
        # an if-expression: sites in the condition and in each arm are visited condition-first, which is not
        # source order
        if depth < 2 and ch.int(0, 99) < {'call': 22, 'mixed': 12, 'rewrite': 14, 'insert': 12}.get(self.focus, 4):
            return f'({self.expr(env, depth + 1, calls)} if {self.cond(env, depth + 1)} else {self.expr(env, depth + 1, calls)})'
        r = ch.int(0, 99)
        if self.focus == 'rewrite' and r < 40:
            return f'({self.expr(env, depth + 1)} * {self.leaf(env)} + {self.leaf(env)})'
        if r < 55:
            op = ch.choice(['+', '-', '*', '*'])
            return f'({self.expr(env, depth + 1)} {op} {self.expr(env, depth + 1)})'
        if r < 62:
            return f'abs({self.expr(env, depth + 1)})'
        if r < 67 and env:
            return f'(-{self.var(env)})'
        return self.leaf(env)

    def cond(self, env, depth=1):
        ch = self.ch
        r = ch.int(0, 99)
        rel = lambda: ch.choice([">", "<", ">=", "<="])
        if r < 50:
            lhs = self.expr(env, depth) if ch.bool(0.5) else self.leaf(env)
            return f'{lhs} {rel()} {self.leaf(env)}'
        if r < 70:
            # a chained comparison: three operands of one node
            return f'{self.expr(env, depth)} {rel()} {self.leaf(env)} {rel()} {self.expr(env, depth)}'
        if r < 90:
            op = ch.choice(['and', 'or'])
            return f'({self.expr(env, depth)} {rel()} {self.leaf(env)} {op} {self.expr(env, depth)} {rel()} {self.leaf(env)})'
        return f'{self.leaf(env)} {rel()} {self.expr(env, depth)}'

    # -- statements --------------------------------------------------------
    def block(self, depth, env, n):
        env = list(env)
        for _ in range(n):
            self.stmt(depth, env)

    def n_inner(self, depth):
        return self.ch.int(1, 3 if depth <= 1 else 2)

    def stmt(self, depth, env):
        ch = self.ch
        w = WEIGHTS[self.focus]
        kinds = ['assign', 'for', 'while', 'round', 'with', 'if']
        pairs = [(wt, k) for wt, k in zip(w, kinds) if wt > 0 and (depth < 3 or k in ('assign', 'round'))]
        kind = ch.weighted(pairs)
        getattr(self, 'st_' + kind)(depth, env)

    def st_misc(self, depth, env):
        """statements that bind no watermark but can hold call sites / operations: assert, indexed assignment,
        expression statement"""
        ch = self.ch
        r = ch.int(0, 2)
        if r == 0:
            self.emit(depth, f'assert {self.expr(env, 1)} == {self.leaf(env)} or {self.leaf(env)} > 0')
        elif r == 1:
            m = self.fresh('m')
            self.emit(depth, f'{m} = [{self.leaf(env)}, {self.leaf(env)}]')
            self.emit(depth, f'{m}[{ch.int(0, 1)}] = {self.expr(env)}')
        else:
            self.emit(depth, f'{self.expr(env, 0, calls=70 if self.focus in ("call", "mixed") else 0)}')

    def st_assign(self, depth, env):
        if self.focus in ('call', 'mixed', 'rewrite', 'insert') and self.ch.bool(0.08):
            return self.st_misc(depth, env)
        if self.focus in ('call', 'mixed', 'rewrite') and self.ch.bool(0.07):
            # a comprehension: its iterable is visited before its element (the element does not hand the loop
            # variable to a call, which inlining would hoist out of its scope)
            m, v = self.fresh('m'), self.fresh('v', 'y')
            it = 'h4(xs)' if self.focus != 'rewrite' and self.ch.bool(0.6) else 'xs'
            self.emit(depth, f'{m} = [{self.expr(env, 1)} + {v} for {v} in {it}]')
            return
        if self.focus in ('rewrite', 'mixed') and self.ch.bool(0.2):
            # the window a two-statement rule `y = a * b; z = c + d` matches
            m, m2 = self.fresh('m'), self.fresh('m')
            self.emit(depth, f'{m} = {self.leaf(env)} * {self.leaf(env)}')
            env.append(m)
            self.emit(depth, f'{m2} = {self.leaf(env)} + {self.leaf(env)}')
            env.append(m2)
            return
        m = self.fresh('m')
        if self.focus == 'rewrite' and self.ch.bool(0.3):
            # the shape a one-statement rule `y = a * b` matches
            self.emit(depth, f'{m} = {self.leaf(env)} * {self.leaf(env)}')
        else:
            self.emit(depth, f'{m} = {self.expr(env)}')
        env.append(m)

    def st_for(self, depth, env):
        ch = self.ch
        r = ch.int(0, 99)
        numeric = True
        if r < 35:
            it = 'xs'
        elif r < 70:
            it = f'range({ch.int(2, 6)})'
        elif r < 85:
            it = '[' + ', '.join(self.leaf(env) for _ in range(ch.int(2, 4))) + ']'
        elif r < 92 and self.focus in ('call', 'mixed'):
            it = 'h4(xs)'
        elif r < 96:
            it = 'zip(xs, xs)'
            numeric = False
        else:
            it = 'enumerate(xs)'
            numeric = False
        if numeric:
            i = self.fresh('i')
            self.emit(depth, f'for {i} in {it}:')
            inner = env + [i]
        else:
            i, j = self.fresh('i'), self.fresh('i')
            self.emit(depth, f'for {i}, {j} in {it}:')
            inner = env + [i, j]
        self.block(depth + 1, inner, self.n_inner(depth))

    def st_while(self, depth, env):
        ch = self.ch
        k = self.fresh('k', 'y')
        self.emit(depth, f'{k} = {ch.int(1, 3)}')
        if self.focus in ('call', 'mixed') and ch.bool(0.4):
            self.emit(depth, f'while h0({k}, 1) > 0:')       # a call `inline` must refuse
        else:
            self.emit(depth, f'while {k} > 0:')
        self.block(depth + 1, env, self.n_inner(depth))
        self.emit(depth + 1, f'{k} = {k} - 1')

    def st_round(self, depth, env):
        ch = self.ch
        ctx = ch.choice(ROUND_CTXS)
        variant = ch.weighted([(12, 'plain'), (2, 'as'), (2, 'nonvar'), (2, 'arith'), (3, 'two'), (2, 'cast'), (1, 'mixed')])
        if variant == 'as':
            c = self.fresh('c')
            self.emit(depth, f'with {ctx} as {c}:')
        else:
            self.emit(depth, f'with {ctx}:')
        ms = []

        def rnd(fn='round'):
            m = self.fresh('m')
            self.emit(depth + 1, f'{m} = fp.{fn}({self.var(env)})')
            ms.append(m)
        if variant in ('plain', 'as'):
            rnd()
        elif variant == 'two':
            rnd()
            rnd()
        elif variant == 'cast':
            rnd('cast')
        elif variant == 'nonvar':
            m = self.fresh('m')
            self.emit(depth + 1, f'{m} = fp.round({self.var(env)} + {self.leaf(env)})')
            ms.append(m)
        elif variant == 'arith':
            m = self.fresh('m')
            self.emit(depth + 1, f'{m} = {self.var(env)} * {self.leaf(env)}')
            ms.append(m)
        else:
            rnd()
            m = self.fresh('m')
            self.emit(depth + 1, f'{m} = {self.var(env)} + {self.leaf(env)}')
            ms.append(m)
        env.extend(ms)

    def st_with(self, depth, env):
        ch = self.ch
        if self.focus == 'insert':
            ctx = 'fp.REAL' if (self.real_depth == 0 or ch.bool(0.4)) else ch.choice(['fp.FP32', 'fp.FP64', 'fp.FP16'])
        else:
            ctx = ch.choice(PLAIN_CTXS)
        self.emit(depth, f'with {ctx}:')
        is_real = ctx == 'fp.REAL'
        save = self.real_depth
        self.real_depth = self.real_depth + 1 if is_real else 0
        self.block(depth + 1, env, self.n_inner(depth))
        self.real_depth = save

    def st_if(self, depth, env):
        ch = self.ch
        if self.focus in ('call', 'mixed') and ch.bool(0.3):
            self.emit(depth, f'if h0({self.leaf(env)}, {self.leaf(env)}) > {self.leaf(env)}:')
        else:
            self.emit(depth, f'if {self.cond(env)}:')
        self.block(depth + 1, env, self.n_inner(depth))
        if ch.bool(0.35):
            self.emit(depth, 'else:')
            self.block(depth + 1, env, self.n_inner(depth))

    # -- whole program -----------------------------------------------------
    def program(self):
        ch = self.ch
        f = self.focus
        if f == 'round':
            deco = '@fp.fpy(ctx=fp.REAL)'
        elif f == 'insert':
            deco = '@fp.fpy(ctx=fp.FP64)'
        else:
            deco = ch.weighted([(5, '@fp.fpy'), (1, '@fp.fpy(ctx=fp.REAL)'), (1, '@fp.fpy(ctx=fp.FP32)')])
        env = ['a0', 'a1']
        n = ch.int(3, 6)
        body_start = len(self.lines)
        if f == 'insert':
            # most of the program sits under exact scopes
            for _ in range(n):
                if ch.bool(0.7):
                    self.st_with(0, env)
                else:
                    self.stmt(0, env)
        else:
            for _ in range(n):
                self.stmt(0, env)
        if f in ('round', 'mixed') and ch.bool(0.3):
            # a returned round: the rewrites bind it to a temporary and return that
            self.emit(0, f'with {ch.choice(ROUND_CTXS)}:')
            self.emit(1, f'return fp.round({self.var(env)})')
        else:
            ret = self.expr(env, 0)
            self.emit(0, f'return {ret}')
        head = [deco, 'def main(a0: fp.Real, a1: fp.Real, xs: list[fp.Real]):']
        return HELPERS + '\n'.join(head + self.lines[body_start:]) + '\n'


def gen_program(ch, focus=None):
    """-> (src, focus)"""
    if focus is None:
        focus = ch.choice(FOCI)
    g = WGen(ch, focus)
    return g.program(), focus


INPUTS = [
    (1.5, -2.0, [1.0, 2.5, -3.0]),
    (0.25, 3.0, [0.5, 4.0, 2.0, 1.0]),
    (-1.0, 0.5, []),
    (2.0, 2.0, [7.0]),
    (3.0, -0.75, [1.0, 2.0, 3.0, 4.0, 5.0, 6.0]),
]


# ---------------------------------------------------------------------------
# bounded enumeration of small arrangements (sites / refusals / other statements, nested <= 2 deep)

def _seqs(alpha, lo, hi):
    import itertools
    for n in range(lo, hi + 1):
        yield from itertools.product(alpha, repeat=n)


def enum_shapes(kind):
    """All abstract programs of `kind`: a sequence of 1-2 items; an item is a leaf ('o' other, 's' site, 'r' refused)
    or (C, body) with C in S (a compound that is itself a site), R (a refused compound), N (a compound that is
    neither); bodies are sequences of 1-2 items one level simpler."""
    if kind == 'for':
        leaves, comp = ['o'], ['S', 'R', 'N']
    elif kind == 'while':
        leaves, comp = ['o'], ['S', 'N']
    else:
        leaves, comp = ['o', 's', 'r'], ['N']
    d2 = list(leaves) + [(c, ('o',)) for c in comp if c != 'N']
    bodies = list(_seqs(d2, 1, 2))
    items = list(leaves) + [(c, b) for c in comp for b in bodies]
    return list(_seqs(items, 1, 2))


ENUM_TEXT = {
    # kind: {symbol: header / leaf text with {m} the fresh watermark}
    'for': {'o': '{m} = a0 + 1', 'S': 'for {i} in xs:', 'R': 'for {i} in range(3):', 'N': 'if a0 > 1:'},
    'while': {'o': '{m} = a0 + 1', 'S': 'while {k} > 0:', 'N': 'if a0 > 1:'},
    'call': {'o': '{m} = a0 + 1', 's': '{m} = h0(a0, a1)', 's2': '{m} = h0(h1(a0), a1)', 'r': '{m} = h2(a0)',
             's3': '{m} = h0(a0, 1) if h1(a1) > 0 else h3(a0)', 's4': '{m} = h3(a0) if (h0(a0, 1) > 0 and 1 < h1(a1) < h0(a1, 2)) else a1',
             's5': '{m} = [h0(a0, 1) + v for v in h4(xs)]',
             'N': 'for {i} in xs:', 'N2': 'if h0(a0, 1) > a1:'},
    'round': {'o': '{m} = a0 + 1', 's': 'with {site}:\n{ind}    {m} = fp.round(a0)', 'r': 'with fp.REAL:\n{ind}    {m} = fp.round(a1)',
              'N': 'for {i} in xs:', 'N2': 'if a0 > 1:'},
}


def render_shape(kind, shape, site_ctx='fp.FP16', variant=0):
    """Source text of an enumerated shape; `variant` flips secondary choices (nested call sites, kind of the
    neutral compound)."""
    T = ENUM_TEXT[kind]
    n = [0]
    lines = []

    def fresh(p, suf='x'):
        s = f'{p}{n[0]:02d}{suf}'
        n[0] += 1
        return s

    def emit(depth, text):
        lines.append('    ' * (depth + 1) + text)

    def item(it, depth):
        ind = '    ' * (depth + 1)
        if isinstance(it, str):
            key = it
            if it == 's' and 's2' in T:
                key = ['s2', 's3', 's4', 's5', 's', 's3', 's'][(variant + n[0]) % 7]
            for ln in T[key].format(m=fresh('m'), site=site_ctx, ind=ind).split('\n'):
                lines.append(ind + ln if not ln.startswith(ind) else ln)
            return
        c, body = it
        key = c
        if c == 'N' and 'N2' in T and (variant + n[0]) % 2:
            key = 'N2'
        if kind == 'while' and c == 'S':
            k = fresh('k', 'y')
            emit(depth, f'{k} = 2')
            emit(depth, T[key].format(k=k))
            for b in body:
                item(b, depth + 1)
            emit(depth + 1, f'{k} = {k} - 1')
            return
        emit(depth, T[key].format(i=fresh('i')))
        for b in body:
            item(b, depth + 1)

    for it in shape:
        item(it, 0)
    emit(0, f'{fresh("m")} = a1 + 2')
    emit(0, 'return a0')
    deco = '@fp.fpy(ctx=fp.REAL)' if kind == 'round' else '@fp.fpy'
    return HELPERS + deco + '\ndef main(a0: fp.Real, a1: fp.Real, xs: list[fp.Real]):\n' + '\n'.join(lines) + '\n'
