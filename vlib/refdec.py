"""
Reference decoders, written from the published layouts (not from fpy2's decode):

* extended float (Saiki, "Small Floats" blog post / EFloatContext docstring):
      [ sign | es exponent bits | m = nbits-1-es mantissa bits ]
  bias = 2^(es-1) - 1 (0 when es = 0), shifted by `eoffset`;
  E = 0        : subnormal  M * 2^(1 - bias - m + eoffset)
  E > 0        : (2^m + M) * 2^(E - bias - m + eoffset)
  special codes by NaN kind:
      IEEE_754 : E all ones: M = 0 is +/-inf when infinities are enabled, everything else NaN
      MAX_VAL  : (E,M) all ones is NaN; with infinities, all-ones-minus-one is +/-inf
      NEG_ZERO : the pattern 1 0...0 is NaN; with infinities, (E,M) all ones is +/-inf
      NONE     : no NaN; with infinities, (E,M) all ones is +/-inf
* two's complement fixed point: value = signed_int(bits) * 2^scale
* sign-magnitude fixed point:   value = (-1)^msb * low_bits * 2^scale
* exponential: bits all ones is NaN; else 2^(bits - bias), bias = 2^(nbits-1) - 1 - eoffset

All return denotations (vlib.denote).
"""

from fractions import Fraction

from .denote import NAN, NINF, NZERO, PINF, PZERO, pow2

IEEE_754, MAX_VAL, NEG_ZERO, NONE = 0, 1, 2, 3


def efloat_valid(es, nbits, enable_inf, nan_kind) -> bool:
    """Formats that have at least the codes they need (mirrors the documented constraints:
    every special code must exist and be distinct from zero)."""
    if nbits < 1 or es < 0 or es >= nbits:
        return False
    return True


def efloat_decode(es, nbits, enable_inf, nan_kind, eoffset, bits):
    m = nbits - 1 - es
    sign = (bits >> (nbits - 1)) & 1
    E = (bits >> m) & ((1 << es) - 1)
    M = bits & ((1 << m) - 1)
    mag = bits & ((1 << (nbits - 1)) - 1)
    allones = (1 << (nbits - 1)) - 1
    emask = (1 << es) - 1
    neg = bool(sign)
    bias = (1 << (es - 1)) - 1 if es >= 1 else 0

    if nan_kind == IEEE_754:
        if es >= 1 and E == emask:
            if enable_inf and M == 0:
                return NINF if neg else PINF
            return NAN
    elif nan_kind == MAX_VAL:
        if mag == allones:
            return NAN
        if enable_inf and mag == allones - 1:
            return NINF if neg else PINF
    else:
        if enable_inf and mag == allones:
            return NINF if neg else PINF
        if nan_kind == NEG_ZERO and neg and mag == 0:
            return NAN

    if E == 0:
        v = Fraction(M) * pow2(1 - bias - m + eoffset)
    else:
        v = Fraction((1 << m) + M) * pow2(E - bias - m + eoffset)
    if v == 0:
        return NZERO if neg else PZERO
    return -v if neg else v


def efloat_all(es, nbits, enable_inf, nan_kind, eoffset):
    return [efloat_decode(es, nbits, enable_inf, nan_kind, eoffset, b) for b in range(1 << nbits)]


def efloat_params(es, nbits, eoffset):
    """(p, emin) from the layout: p = m + 1 digits, smallest normal exponent."""
    m = nbits - 1 - es
    bias = (1 << (es - 1)) - 1 if es >= 1 else 0
    return m + 1, 1 - bias + eoffset


def fixed_decode(signed, scale, nbits, bits):
    v = bits
    if signed and bits >> (nbits - 1):
        v = bits - (1 << nbits)
    if v == 0:
        return PZERO
    return Fraction(v) * pow2(scale)


def smfixed_decode(scale, nbits, bits):
    neg = bool(bits >> (nbits - 1))
    mag = bits & ((1 << (nbits - 1)) - 1)
    if mag == 0:
        return NZERO if neg else PZERO
    v = Fraction(mag) * pow2(scale)
    return -v if neg else v


def exp_decode(nbits, eoffset, bits):
    if bits == (1 << nbits) - 1:
        return NAN
    bias = (1 << (nbits - 1)) - 1 - eoffset
    return pow2(bits - bias)
