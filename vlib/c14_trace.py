"""
C14 tracing: vlib.trace's TracingCompiler with a recorder that converts every observed value to an
immutable denotation *at observation time* (lists are mutable: a reference kept in a snapshot would
show later stores) and keeps one global, ordered, de-duplicated log, so that the first non-member in
execution order (the root of a failure) can be told from values merely derived from it.

    rt = DenTracingInterpreter()
    result = f.with_rt(rt)(*args, ctx=ctx)
    rec = rt.recorder(f)          # rec.log: [('expr', node_idx, den, operand_dens) | ('bind', stmt_idx, name, den)]
"""

from __future__ import annotations

from fractions import Fraction

from fpy2.function import Function
from fpy2.interpret.byte import BytecodeInterpreter
from fpy2.interpret.value import from_value, to_value
from fpy2.number import Float, RealFloat

from .denote import den
from .trace import Recorder, TracingCompiler

OPAQUE = ('?',)
MAX_LOG = 6000


def dden(v):
    """Deep denotation; anything that is not a number / bool / list / tuple becomes OPAQUE."""
    if isinstance(v, list):
        return ('L',) + tuple(dden(x) for x in v)
    if isinstance(v, tuple):
        return ('T',) + tuple(dden(x) for x in v)
    if isinstance(v, (bool, Float, RealFloat, int, float, Fraction)):
        return den(v)
    return OPAQUE


class DenRecorder(Recorder):
    def __init__(self, func):
        super().__init__(func)
        self.log = []
        self.seen = set()
        self.last = {}            # node idx -> last denotation
        self.kids = {}            # node idx -> tuple of child node idx (operands), lazily
        self.loop_iters = {}      # for-stmt idx -> iterations this run
        self.n_events = 0
        self.truncated = False

    def reset(self):
        super().reset()
        self.log.clear()
        self.seen.clear()
        self.last.clear()
        self.loop_iters.clear()
        self.n_events = 0
        self.truncated = False

    def _children(self, idx):
        k = self.kids.get(idx)
        if k is None:
            node = self.nodes[idx]
            out = []
            for attr in ('args', 'elts', 'iterables'):
                for a in getattr(node, attr, None) or ():
                    ci = self.index.get(id(a))
                    if ci is not None:
                        out.append(ci)
            for attr in ('cond', 'ift', 'iff', 'value', 'index', 'start', 'stop', 'elt'):
                a = getattr(node, attr, None)
                if a is not None:
                    ci = self.index.get(id(a))
                    if ci is not None:
                        out.append(ci)
            k = self.kids[idx] = tuple(out)
        return k

    def on_expr(self, idx, value):
        self.n_events += 1
        dv = dden(value)
        self.last[idx] = dv
        key = (idx, dv)
        if key not in self.seen:
            if len(self.log) < MAX_LOG:
                self.seen.add(key)
                ops = tuple(self.last.get(c) for c in self._children(idx))
                self.log.append(('expr', idx, dv, ops))
            else:
                self.truncated = True
        return value

    def on_bind(self, idx, names, env):
        self.n_events += 1
        if type(self.nodes[idx]).__name__ == 'ForStmt':
            self.loop_iters[idx] = self.loop_iters.get(idx, 0) + 1
        for n in names:
            if n not in env:
                continue
            dv = dden(env[n])
            key = (idx, n, dv)
            if key not in self.seen:
                if len(self.log) < MAX_LOG:
                    self.seen.add(key)
                    self.log.append(('bind', idx, n, dv))
                else:
                    self.truncated = True


class DenTracingInterpreter(BytecodeInterpreter):
    def __init__(self, ctx=None):
        super().__init__(ctx=ctx)
        self.recs: dict = {}

    def recorder(self, f) -> DenRecorder:
        ast = f.ast if isinstance(f, Function) else f
        return self.recs.get(id(ast))

    def eval(self, func: Function, args, ctx=None, *, convert: bool = True):
        if not isinstance(func, Function):
            raise TypeError(f'Expected Function, got `{func}`')
        if func.ast not in self.func_cache:
            rec = DenRecorder(func.ast)
            compiler = TracingCompiler(func.ast, func.env, rec)
            fn = compiler.compile()
            fn.__globals__['__vt_expr'] = rec.on_expr
            fn.__globals__['__vt_bind'] = rec.on_bind
            fn.__globals__['locals'] = locals
            self.func_cache[func.ast] = fn
            self.recs[id(func.ast)] = rec
        fn = self.func_cache[func.ast]
        ctx = self._func_ctx(func.ast, ctx)
        if convert:
            args = tuple(to_value(arg) for arg in args)
        res = fn(*args, __ctx__=ctx)
        return from_value(res) if convert else res
