"""
C12 "fpcore" generator profile: FPy source text restricted to the FPCore-expressible subset that
`fpy2.backend.fpc` accepts.  Built on vlib.progen's Chooser / Program plumbing with its own productions
(progen's behaviour is unchanged).

Subset (by construction):
  * one `return`, in tail position (possibly inside a tail `with`);
  * constants: bare integer literals (exact; the backend's `unsafe_int_cast` mode emits them under
    `:precision integer`) and explicitly rounded constants `fp.round(0.1)`, `fp.round(3)`;
  * `with <ctx>:` blocks, sequential and nested, WITH STATEMENTS AFTER THE INNER BLOCK; contexts only from
    the FPCore-expressible table CTXS below (binary16/32/64/128, (float es nbits), integer, (fixed scale nbits),
    real; the six FPCore rounding modes; overflow infinity/clamp/wrap);
  * `if`/`if-else` mutating 1..3 existing variables (>=2 needs IfBundling), `while` with a strictly
    decreasing counter and 0..2 further carried variables, `for` over a list / range / zip / enumerate
    with 1..3 carried variables;
  * tuples (pairs), tuple destructuring, fst/snd; fixed-size list arguments; list literals and
    comprehensions; sum/min/max over lists, any/all over comprehensions, n-ary min/max; len; indexing with
    literal or loop indices; indexed assignment on unaliased local lists;
  * helper calls (helpers without a declared context contain no `with`).
Every if/loop body assigns at least one variable that exists before it, so the backend's "no mutated variable"
lowering (which injects a literal 0) never appears.
"""

from __future__ import annotations

from dataclasses import dataclass, field
from fractions import Fraction

from vlib import progen
from vlib.progen import Chooser

RMS = ['RNE', 'RNA', 'RTP', 'RTN', 'RTZ', 'RAZ']

# (text template, kind) -- `kind` steers which productions are allowed inside the block
CTXS = [
    ('fp.FP16', 'float'), ('fp.FP32', 'float'), ('fp.FP64', 'float'), ('fp.FP128', 'float'),
    ('fp.IEEEContext(5, 16, fp.RM.{rm})', 'float'),
    ('fp.IEEEContext(8, 32, fp.RM.{rm})', 'float'),
    ('fp.IEEEContext(11, 64, fp.RM.{rm})', 'float'),
    ('fp.IEEEContext(15, 128, fp.RM.{rm})', 'float'),
    ('fp.IEEEContext(4, 8, fp.RM.{rm})', 'float'),
    ('fp.IEEEContext(3, 6, fp.RM.{rm})', 'float'),
    ('fp.IEEEContext(5, 12, fp.RM.{rm})', 'float'),
    ('fp.IEEEContext(6, 20, fp.RM.{rm})', 'float'),
    # standard total width, non-standard exponent size: must NOT be spelled binaryNN
    ('fp.IEEEContext(8, 16, fp.RM.{rm})', 'float'),      # bfloat16
    ('fp.IEEEContext(4, 16, fp.RM.{rm})', 'float'),
    ('fp.IEEEContext(11, 32, fp.RM.{rm})', 'float'),
    ('fp.IEEEContext(5, 32, fp.RM.{rm})', 'float'),
    ('fp.IEEEContext(8, 64, fp.RM.{rm})', 'float'),
    ('fp.IEEEContext(11, 128, fp.RM.{rm})', 'float'),
    ('fp.INTEGER', 'integer'),
    ('fp.MPFixedContext(-1, fp.RM.{rm}, enable_neg_zero=False)', 'integer'),   # = fp.INTEGER with another rounding mode
    ('fp.FixedContext(True, -2, 8, fp.RM.{rm}, fp.OV.SATURATE)', 'fixed'),
    ('fp.FixedContext(True, -4, 12, fp.RM.{rm}, fp.OV.SATURATE)', 'fixed'),
    ('fp.FixedContext(True, 0, 6, fp.RM.{rm}, fp.OV.SATURATE)', 'fixed'),
    ('fp.FixedContext(True, -3, 10, fp.RM.{rm}, fp.OV.WRAP)', 'fixed'),
    ('fp.FixedContext(True, -1, 9, fp.RM.{rm}, fp.OV.OVERFLOW)', 'fixed'),
    ('fp.FixedContext(True, -6, 12, fp.RM.{rm}, fp.OV.SATURATE)', 'fixed'),
    ('fp.REAL', 'real'),
]
# Every context above represents the small integers (0..8) exactly: FPCore rounds a literal under the context around it,
# and the lowering indexes its tuples with bare literals (`(ref t 1)` for `snd`), so a format without them
# (e.g. the fraction-only (fixed -8 8)) cannot host the tuple code the backend itself generates.
CTX_WEIGHTS = {'float': 6, 'integer': 2, 'fixed': 2, 'real': 2}

DEC_LITS = ['0.1', '0.5', '1.5', '2.75', '0.3', '3.25', '0.125', '0.001', '7.7', '100.25', '0.7', '12.6']
INT_LITS = ['0', '1', '2', '3', '5', '7', '10']


@dataclass
class FpcProfile:
    name: str = 'fpcore'
    max_helpers: int = 2
    max_stmts: int = 6
    max_depth: int = 3
    expr_depth: int = 2
    lists: bool = True
    tuples: bool = True
    helpers: bool = True
    real_ctx: bool = True
    fixed_ctx: bool = True
    indexed_assign: bool = True
    with_weight: int = 14
    main_ctx_p: float = 0.2


@dataclass
class FpcProgram:
    src: str
    main: str
    params: list                 # [(name, 'R' | ('L', n))]
    helpers: list                # helper names in definition order
    features: set
    main_ctx: str | None         # declared context text of main (arguments must be representable in it)
    uses_real: bool = False
    uses_fixed: bool = False

    def sizes(self):
        return [t[1] if t[0] == 'L' else [t[1], t[2]] for _, t in self.params if isinstance(t, tuple)]


class _Fn:
    def __init__(self, name, is_main):
        self.name = name
        self.is_main = is_main
        self.env = {}            # name -> 'R' | 'B' | 'T' | ('L', n)
        self.counter = 0
        self.protected = set()   # loop counters / loop targets / parameters lists: never assigned by random statements
        self.local_lists = set()  # unaliased local lists (indexed assignment allowed)
        self.ctx_kind = 'float'  # kind of the active context
        self.allow_with = True

    def fresh(self, p):
        self.counter += 1
        return f'{p}{self.counter}'


class FpcGen:
    def __init__(self, ch: Chooser, profile: FpcProfile | None = None):
        self.ch = ch
        self.p = profile or FpcProfile()
        self.features = set()
        self.helpers = []        # (name, nparams, has_ctx)
        self.lines = []
        self.uses_real = False
        self.uses_fixed = False

    # -- contexts ----------------------------------------------------------------------------------------
    def ctx_text(self, allow_real=True, kinds=None):
        ch = self.ch
        pool = [(CTX_WEIGHTS[k], (t, k)) for t, k in CTXS
                if (k != 'real' or (allow_real and self.p.real_ctx)) and (k != 'fixed' or self.p.fixed_ctx)
                and (kinds is None or k in kinds)]
        t, k = ch.weighted(pool)
        if k == 'real':
            self.uses_real = True
        if k == 'fixed':
            self.uses_fixed = True
        return t.format(rm=ch.choice(RMS)), k

    # -- expressions -------------------------------------------------------------------------------------
    def vars_of(self, fn, ty):
        if ty in ('L', 'M'):
            return sorted(n for n, t in fn.env.items() if isinstance(t, tuple) and t[0] == ty)
        return sorted(n for n, t in fn.env.items() if t == ty)

    def const(self, fn):
        ch = self.ch
        k = ch.weighted([(4, 'int'), (4, 'rdec'), (2, 'rint')])
        if k == 'int':
            return ch.choice(INT_LITS)
        if k == 'rdec':
            self.features.add('rounded-const')
            return f'fp.round({ch.choice(DEC_LITS)})'
        self.features.add('rounded-const')
        return f'fp.round({ch.choice(INT_LITS)})'

    def atom(self, fn):
        vs = self.vars_of(fn, 'R')
        if vs and self.ch.bool(0.75):
            return self.ch.choice(vs)
        return self.const(fn)

    def expr_R(self, fn, d):
        ch = self.ch
        if d <= 0:
            return self.atom(fn)
        real = fn.ctx_kind == 'real'
        opts = [(32, 'bin'), (10, 'atom'), (3, 'neg'), (3, 'abs'), (4, 'cast'), (3, 'minmax'), (3, 'ifexp'), (3, 'fma')]
        if not real:
            opts += [(3, 'sqrt'), (2, 'rint')]
        ls = self.vars_of(fn, 'L') if self.p.lists else []
        if ls:
            opts += [(6, 'index'), (4, 'sum'), (2, 'len'), (3, 'lminmax')]
        ms = self.vars_of(fn, 'M') if self.p.lists else []
        if ms:
            opts += [(9, 'mindex'), (3, 'msum')]
        if self.vars_of(fn, 'T'):
            opts.append((5, 'fst'))
        if self.helpers and not real:
            opts.append((7, 'call'))     # self.helpers only holds completed helpers: no recursion
        k = ch.weighted(opts)
        if k == 'atom':
            return self.atom(fn)
        if k == 'bin':
            op = ch.choice(['+', '-', '*', '/'])
            return f'({self.expr_R(fn, d - 1)} {op} {self.expr_R(fn, d - 1)})'
        if k == 'neg':
            vs = self.vars_of(fn, 'R')
            inner = ch.choice(vs) if vs and ch.bool(0.5) else f'({self.expr_R(fn, d - 1)} {ch.choice(["+", "*"])} {self.expr_R(fn, d - 1)})'
            return f'(-{inner})'
        if k == 'abs':
            return f'abs({self.expr_R(fn, d - 1)})'
        if k == 'sqrt':
            return f'fp.sqrt(abs({self.expr_R(fn, d - 1)}))'
        if k == 'cast':
            vs = self.vars_of(fn, 'R')
            inner = ch.choice(vs) if vs and ch.bool(0.5) else f'({self.expr_R(fn, d - 1)} {ch.choice(["+", "*", "/"])} {self.expr_R(fn, d - 1)})'
            self.features.add('cast')
            return f'fp.round({inner})'
        if k == 'fma':
            return f'fp.fma({self.expr_R(fn, d - 1)}, {self.expr_R(fn, d - 1)}, {self.expr_R(fn, d - 1)})'
        if k == 'rint':
            return f'fp.{ch.choice(["floor", "ceil", "trunc"])}({self.expr_R(fn, d - 1)})'
        if k == 'minmax':
            self.features.add('minmax')
            return f'{ch.choice(["min", "max"])}({", ".join(self.expr_R(fn, d - 1) for _ in range(ch.int(2, 3)))})'
        if k == 'ifexp':
            self.features.add('ifexp')
            return f'({self.expr_R(fn, d - 1)} if {self.expr_B(fn, d - 1)} else {self.expr_R(fn, d - 1)})'
        if k == 'index':
            l = ch.choice(ls)
            return f'{l}[{ch.int(0, fn.env[l][1] - 1)}]'
        if k == 'mindex':
            # two-level indexing with different indices on a non-square list of lists
            m = ch.choice(ms)
            _, r, c = fn.env[m]
            i, j = ch.int(0, r - 1), ch.int(0, c - 1)
            if i == j:
                j = (j + 1) % c
            self.features.add('index-2-levels')
            return f'{m}[{i}][{j}]'
        if k == 'msum':
            m = ch.choice(ms)
            self.features.add('row-reduce')
            return f'{ch.choice(["sum", "max", "min"])}({m}[{ch.int(0, fn.env[m][1] - 1)}])'
        if k == 'sum':
            self.features.add('sum')
            return f'sum({ch.choice(ls)})'
        if k == 'len':
            return f'len({ch.choice(ls)})'
        if k == 'lminmax':
            self.features.add('list-minmax')
            return f'{ch.choice(["min", "max"])}({ch.choice(ls)})'
        if k == 'fst':
            self.features.add('fst-snd')
            return f'fp.{ch.choice(["fst", "snd"])}({ch.choice(self.vars_of(fn, "T"))})'
        if k == 'call':
            name, n, has_ctx = ch.choice(self.helpers)
            self.features.add('helper-call')
            self.features.add('helper-with-own-ctx' if has_ctx else 'helper-without-ctx')
            return f'{name}({", ".join(self.expr_R(fn, d - 1) for _ in range(n))})'
        raise ValueError(k)

    def expr_B(self, fn, d):
        ch = self.ch
        vs = self.vars_of(fn, 'B')
        if d <= 0:
            if vs and ch.bool(0.3):
                return ch.choice(vs)
            return f'({self.atom(fn)} {ch.choice(["<", "<=", ">", ">=", "==", "!="])} {self.atom(fn)})'
        opts = [(12, 'cmp'), (2, 'chain'), (3, 'and'), (3, 'or'), (2, 'not'), (2, 'pred')]
        if vs:
            opts.append((3, 'var'))
        if self.vars_of(fn, 'L'):
            opts.append((3, 'anyall'))
        k = ch.weighted(opts)
        if k == 'cmp':
            return f'({self.expr_R(fn, d - 1)} {ch.choice(["<", "<=", ">", ">=", "==", "!="])} {self.expr_R(fn, d - 1)})'
        if k == 'chain':
            # operands are atoms: a chain with mixed operators duplicates its middle operand in the emitted core
            vs_r = self.vars_of(fn, 'R')
            if not vs_r:
                return f'({self.atom(fn)} < {self.atom(fn)})'
            self.features.add('chained-compare')
            if ch.bool(0.5):
                # four or five operands whose operator sequence leaves an operator and returns to it; operands repeat
                # so that the equal-operand cases (where <, <= differ) occur
                ops4 = ['<', '<=', '>', '>=', '==']
                o1 = ch.choice(ops4)
                o2 = ch.choice([o for o in ops4 if o != o1])
                seq = ch.choice([[o1, o2, o1], [o1, o2, o1, o2], [o1, o1, o2, o1], [o1, o2, o2, o1]])
                pool = [ch.choice(vs_r) for _ in range(2)]        # middle operands are variables (structural oracle)
                xs = [ch.choice(pool + [self.atom(fn)])] + [ch.choice(pool) for _ in range(len(seq) - 1)] + \
                     [ch.choice(pool + [self.atom(fn)])]
                self.features.add('chained-compare-4+')
                return '(' + xs[0] + ''.join(f' {o} {x}' for o, x in zip(seq, xs[1:])) + ')'
            return f'({self.atom(fn)} {ch.choice(["<", "<="])} {ch.choice(vs_r)} {ch.choice(["<", "<="])} {self.atom(fn)})'
        if k == 'and':
            return f'({self.expr_B(fn, d - 1)} and {self.expr_B(fn, d - 1)})'
        if k == 'or':
            return f'({self.expr_B(fn, d - 1)} or {self.expr_B(fn, d - 1)})'
        if k == 'not':
            return f'(not {self.expr_B(fn, d - 1)})'
        if k == 'var':
            return ch.choice(vs)
        if k == 'pred':
            return f'fp.{ch.choice(["isnan", "isinf", "isfinite"])}({self.expr_R(fn, d - 1)})'
        if k == 'anyall':
            l = ch.choice(self.vars_of(fn, 'L'))
            v = fn.fresh('q')
            fn.env[v] = 'R'
            body = f'({v} {ch.choice(["<", ">=", "=="])} {self.expr_R(fn, d - 1)})'
            del fn.env[v]
            self.features.add('any-all')
            return f'{ch.choice(["any", "all"])}([{body} for {v} in {l}])'
        raise ValueError(k)

    def expr_L(self, fn, d):
        """(text, length)"""
        ch = self.ch
        ls = self.vars_of(fn, 'L')
        opts = [(5, 'literal')]
        if ls:
            opts += [(6, 'comp')]
        k = ch.weighted(opts)
        if k == 'literal':
            n = ch.int(1, 4)
            self.features.add('list-literal')
            return '[' + ', '.join(self.expr_R(fn, max(0, d - 1)) for _ in range(n)) + ']', n
        l = ch.choice(ls)
        v = fn.fresh('e')
        fn.env[v] = 'R'
        body = self.expr_R(fn, max(1, d))
        del fn.env[v]
        self.features.add('comprehension')
        return f'[{body} for {v} in {l}]', fn.env[l][1]

    # -- statements --------------------------------------------------------------------------------------
    def mutable_R(self, fn):
        return [v for v in self.vars_of(fn, 'R') if v not in fn.protected]

    def assign_existing(self, fn, ind, out, targets, d):
        """One assignment to each of `targets` (existing R variables), in a random form."""
        ch = self.ch
        for v in targets:
            if ch.bool(0.25):
                out.append(f'{ind}{v} {ch.choice(["+=", "-=", "*="])} {self.expr_R(fn, d - 1)}')
            else:
                out.append(f'{ind}{v} = {self.expr_R(fn, d)}')

    def body_block(self, fn, ind, out, depth, n_mut_choices=(1, 1, 2, 2, 3), extra_ok=True, force=None, must_use=()):
        """A branch/loop body: assigns 1..3 existing scalars (in order), optionally through a `with` block and with
        block-local temporaries.  Returns the list of mutated names."""
        ch = self.ch
        cands = self.mutable_R(fn)
        n = min(len(cands), ch.choice(list(n_mut_choices)))
        targets = list(force or [])
        pool = [c for c in cands if c not in targets]
        while len(targets) < n and pool:
            t = ch.choice(pool)
            pool.remove(t)
            targets.append(t)
        snap = dict(fn.env)
        d = self.p.expr_depth
        for use in must_use:
            # a block-local temporary reading the loop target / indexed element, so the value bound to it matters
            tmp = fn.fresh('w')
            out.append(f'{ind}{tmp} = {use} {ch.choice(["+", "*", "-"])} {self.atom(fn)}')
            fn.env[tmp] = 'R'
        if must_use and targets:
            out.append(f'{ind}{targets[0]} = {targets[0]} {ch.choice(["+", "-"])} {tmp}')
        if extra_ok and ch.bool(0.3):
            tmp = fn.fresh('w')
            out.append(f'{ind}{tmp} = {self.expr_R(fn, d)}')
            fn.env[tmp] = 'R'
        if depth > 0 and fn.allow_with and ch.bool(0.45) and len(targets) >= 1:
            # part of the body under its own context, the rest after the inner block
            text, kind = self.ctx_text()
            k_in = ch.int(1, len(targets))
            out.append(f'{ind}with {text}:')
            old = fn.ctx_kind
            fn.ctx_kind = kind
            self.assign_existing(fn, ind + '    ', out, targets[:k_in], d)
            fn.ctx_kind = old
            self.features.add('with')
            self.features.add('with-inside-branch-or-loop')
            rest = targets[k_in:]
            if rest or ch.bool(0.5):
                self.features.add('stmt-after-with')
                self.assign_existing(fn, ind, out, rest or [targets[0]], d)
        else:
            self.assign_existing(fn, ind, out, targets, d)
        fn.env = snap
        return targets

    def stmt(self, fn, ind, depth, out, in_with):
        ch = self.ch
        p = self.p
        d = p.expr_depth
        opts = [(26, 'assign'), (6, 'aug'), (4, 'assignB')]
        if p.lists:
            opts += [(6, 'assignL'), (3, 'assignM')]
            if p.indexed_assign and fn.local_lists:
                opts += [(7, 'store')]
        if p.tuples:
            opts += [(4, 'assignT')]
            if self.vars_of(fn, 'T'):
                opts += [(7, 'destructure')]
        if self.mutable_R(fn):
            opts += [(8, 'if'), (5, 'if1'), (8, 'for'), (6, 'while')]
        if depth > 0 and fn.allow_with:
            opts.append((p.with_weight, 'with'))
        k = ch.weighted(opts)
        if k == 'assign':
            vs = self.mutable_R(fn)
            if vs and ch.bool(0.4):
                v = ch.choice(vs)
            else:
                v = fn.fresh('v')
            out.append(f'{ind}{v} = {self.expr_R(fn, d)}')
            fn.env[v] = 'R'
        elif k == 'aug':
            vs = self.mutable_R(fn)
            if not vs:
                return
            out.append(f'{ind}{ch.choice(vs)} {ch.choice(["+=", "-=", "*="])} {self.expr_R(fn, d - 1)}')
        elif k == 'assignB':
            v = fn.fresh('b')
            out.append(f'{ind}{v} = {self.expr_B(fn, d - 1)}')
            fn.env[v] = 'B'
        elif k == 'assignL':
            v = fn.fresh('xs')
            e, n = self.expr_L(fn, d - 1)
            out.append(f'{ind}{v} = {e}')
            fn.env[v] = ('L', n)
            fn.local_lists.add(v)
        elif k == 'assignM':
            v = fn.fresh('m')
            r = ch.int(2, 3)
            c = ch.choice([x for x in (2, 3, 4) if x != r])
            rows = ['[' + ', '.join(self.expr_R(fn, 1) for _ in range(c)) + ']' for _ in range(r)]
            out.append(f'{ind}{v} = [{", ".join(rows)}]')
            fn.env[v] = ('M', r, c)
            self.features.add('nested-list-literal')
        elif k == 'store':
            l = ch.choice(sorted(fn.local_lists))
            out.append(f'{ind}{l}[{ch.int(0, fn.env[l][1] - 1)}] = {self.expr_R(fn, d - 1)}')
            self.features.add('indexed-assign')
        elif k == 'assignT':
            v = fn.fresh('t')
            out.append(f'{ind}{v} = ({self.expr_R(fn, d - 1)}, {self.expr_R(fn, d - 1)})')
            fn.env[v] = 'T'
            self.features.add('tuple')
        elif k == 'destructure':
            a, b = fn.fresh('v'), fn.fresh('v')
            out.append(f'{ind}{a}, {b} = {ch.choice(self.vars_of(fn, "T"))}')
            fn.env[a] = 'R'
            fn.env[b] = 'R'
            self.features.add('tuple-destructure')
        elif k == 'if':
            out.append(f'{ind}if {self.expr_B(fn, d - 1)}:')
            m1 = self.body_block(fn, ind + '    ', out, depth - 1)
            intro = fn.fresh('z') if ch.bool(0.25) else None
            if intro:
                out.append(f'{ind}    {intro} = {self.expr_R(fn, d - 1)}')
            out.append(f'{ind}else:')
            # the else arm mutates an overlapping or different set
            m2 = self.body_block(fn, ind + '    ', out, depth - 1, force=m1[:1] if ch.bool(0.5) else None)
            if intro:
                # a name introduced in both arms is visible after the statement
                out.append(f'{ind}    {intro} = {self.expr_R(fn, d - 1)}')
                fn.env[intro] = 'R'
                self.features.add('if-introduces')
            nm = len(set(m1) | set(m2)) + (1 if intro else 0)
            self.features.add('if-else')
            self.features.add(f'if-mutates-{min(nm, 3)}')
        elif k == 'if1':
            out.append(f'{ind}if {self.expr_B(fn, d - 1)}:')
            m = self.body_block(fn, ind + '    ', out, depth - 1)
            self.features.add('if1')
            self.features.add(f'if-mutates-{min(len(m), 3)}')
        elif k == 'for':
            ls = self.vars_of(fn, 'L')
            form = ch.weighted([(5, 'list'), (4, 'range'), (3, 'zip'), (3, 'enum'), (3, 'rangelen')]) if ls else 'range'
            x = fn.fresh('i')
            snap = dict(fn.env)
            must = [x]
            if form == 'list':
                out.append(f'{ind}for {x} in {ch.choice(ls)}:')
                fn.env[x] = 'R'
            elif form == 'range':
                out.append(f'{ind}for {x} in range({ch.int(1, 4)}):')
                fn.env[x] = 'R'
            elif form == 'rangelen':
                l = ch.choice(ls)
                out.append(f'{ind}for {x} in range(len({l})):')
                fn.env[x] = 'R'
                must = [f'{l}[{x}]']
                self.features.add('range-len')
            elif form == 'zip':
                y = fn.fresh('i')
                l1 = ch.choice(ls)
                same = [l for l in ls if fn.env[l][1] == fn.env[l1][1]]
                out.append(f'{ind}for {x}, {y} in zip({l1}, {ch.choice(same)}):')
                fn.env[x] = 'R'
                fn.env[y] = 'R'
                fn.protected.add(y)
                must = [x, y]
                self.features.add('zip')
            else:
                y = fn.fresh('i')
                out.append(f'{ind}for {x}, {y} in enumerate({ch.choice(ls)}):')
                fn.env[x] = 'R'
                fn.env[y] = 'R'
                fn.protected.add(y)
                must = [x, y]
                self.features.add('enumerate')
            fn.protected.add(x)
            m = self.body_block(fn, ind + '    ', out, depth - 1, must_use=must)
            fn.env = snap
            self.features.add('for')
            self.features.add(f'for-carried-{min(len(m), 3)}')
        elif k == 'while':
            c = fn.fresh('k')
            n = ch.int(1, 3)
            out.append(f'{ind}{c} = {n}' if ch.bool(0.6) else f'{ind}{c} = fp.round({n})')
            fn.env[c] = 'R'
            fn.protected.add(c)
            cond = f'{c} > 0'
            if ch.bool(0.15):
                vs = self.mutable_R(fn)
                if vs:
                    cond = f'({c} > 0 and {ch.choice(vs)} < fp.round(1000))'
            elif ch.bool(0.1):
                cond = f'min({c}, {ch.int(1, 5)}) > 0'
                self.features.add('while-cond-minmax')
            out.append(f'{ind}while {cond}:')
            others = ch.choice([0, 1, 1, 2])
            m = []
            if others and self.mutable_R(fn):
                m = self.body_block(fn, ind + '    ', out, depth - 1, n_mut_choices=(others,))
            out.append(f'{ind}    {c} = {c} - 1')
            self.features.add('while')
            self.features.add(f'while-carried-{min(len(m) + 1, 3)}')
        elif k == 'with':
            text, kind = self.ctx_text()
            out.append(f'{ind}with {text}:')
            old = fn.ctx_kind
            fn.ctx_kind = kind
            if in_with:
                self.features.add('nested-with')
            n0 = len(out)
            for _ in range(ch.int(1, 3)):
                self.stmt(fn, ind + '    ', depth - 1, out, in_with + 1)
            if len(out) == n0:
                v = fn.fresh('v')
                out.append(f'{ind}    {v} = {self.expr_R(fn, d)}')
                fn.env[v] = 'R'
            fn.ctx_kind = old
            self.features.add('with')

    # -- functions ---------------------------------------------------------------------------------------
    def function(self, name, is_main):
        ch = self.ch
        p = self.p
        fn = _Fn(name, is_main)
        params = []
        nparams = ch.int(1, 3) if is_main else ch.int(1, 2)
        for i in range(nparams):
            pn = f'{"a" if is_main else "p"}{i}'
            if is_main and p.lists and ch.bool(0.15):
                r = ch.int(2, 3)
                c = ch.choice([x for x in (2, 3, 4) if x != r])
                params.append((pn, ('M', r, c)))
                fn.env[pn] = ('M', r, c)
                self.features.add('nested-list-arg')
            elif is_main and p.lists and ch.bool(0.35):
                n = ch.int(1, 4)
                params.append((pn, ('L', n)))
                fn.env[pn] = ('L', n)
            else:
                params.append((pn, 'R'))
                fn.env[pn] = 'R'
        own_ctx = None
        if (is_main and ch.bool(p.main_ctx_p)) or (not is_main and ch.bool(0.5)):
            # titanfp rounds arguments to the core's context: keep main's declared context a float format
            own_ctx, kind = self.ctx_text(allow_real=False, kinds=('float',) if is_main else None)
            fn.ctx_kind = kind
        fn.allow_with = is_main or own_ctx is not None
        body = []
        ind = '    '
        if is_main:
            nst = ch.int(2, p.max_stmts)
            depth = p.max_depth
        else:
            nst = ch.int(0, 2)
            depth = 1
        for _ in range(nst):
            self.stmt(fn, ind, depth, body, 0)
        # tail: plain return, or return inside a tail `with`
        ret_ty = ch.weighted([(12, 'R'), (2, 'B'), (3, 'T'), (2, 'L'), (3, 'TT')]) if is_main else 'R'
        if ret_ty == 'T' and not p.tuples:
            ret_ty = 'R'
        if ret_ty == 'L' and not p.lists:
            ret_ty = 'R'
        rind = ind
        if fn.allow_with and ch.bool(0.2):
            text, kind = self.ctx_text()
            body.append(f'{ind}with {text}:')
            fn.ctx_kind = kind
            rind = ind + '    '
            self.features.add('tail-with')
            self.features.add('with')
            if ch.bool(0.5):
                v = fn.fresh('v')
                body.append(f'{rind}{v} = {self.expr_R(fn, p.expr_depth)}')
                fn.env[v] = 'R'
        d = p.expr_depth
        if ret_ty == 'R':
            body.append(f'{rind}return {self.expr_R(fn, d)}')
        elif ret_ty == 'B':
            body.append(f'{rind}return {self.expr_B(fn, d)}')
            self.features.add('returns-bool')
        elif ret_ty == 'T':
            body.append(f'{rind}return ({self.expr_R(fn, d - 1)}, {self.expr_R(fn, d - 1)})')
            self.features.add('returns-tuple')
        elif ret_ty == 'TT':
            vs = self.vars_of(fn, 'R')
            items = [ch.choice(vs) if vs else self.expr_R(fn, 0) for _ in range(ch.int(2, 4))]
            body.append(f'{rind}return ({", ".join(items)})')
            self.features.add('returns-tuple')
        else:
            e, _ = self.expr_L(fn, d - 1)
            body.append(f'{rind}return {e}')
            self.features.add('returns-list')

        def ann(t):
            return 'fp.Real' if t == 'R' else ('list[fp.Real]' if t[0] == 'L' else 'list[list[fp.Real]]')
        sig = ', '.join(f'{n}: {ann(t)}' for n, t in params)
        deco = '@fp.fpy' if own_ctx is None else f'@fp.fpy(ctx={own_ctx})'
        self.lines += [deco, f'def {name}({sig}):'] + body + ['']
        if own_ctx is not None:
            self.features.add('main-declares-ctx' if is_main else 'helper-declares-ctx')
        return params, own_ctx

    def program(self) -> FpcProgram:
        nh = self.ch.int(0, self.p.max_helpers) if self.p.helpers else 0
        for i in range(nh):
            params, own = self.function(f'h{i}', False)
            self.helpers.append((f'h{i}', len(params), own is not None))
        params, own = self.function('main', True)
        return FpcProgram(src='\n'.join(self.lines) + '\n', main='main', params=params,
                          helpers=[h[0] for h in self.helpers], features=set(self.features), main_ctx=own,
                          uses_real=self.uses_real, uses_fixed=self.uses_fixed)


def gen_program(ch: Chooser, profile: FpcProfile | None = None) -> FpcProgram:
    return FpcGen(ch, profile).program()


# ---------------------------------------------------------------------------------------------------------
# inputs: titanfp rounds every argument to the core's top-level context, FPy never rounds arguments, so
# arguments are drawn from values representable in main's declared context (binary64 when none).

F64_POOL = [0.0, 1.0, 2.0, 3.0, -1.0, 7.0, 0.5, 0.1, -2.25, 3.75, 1e-3, 1e10, 100.0, 1.0000001, 0.3, -0.0, 1e-320,
            float('inf'), float('-inf'), float('nan'), 255.0, 65504.0, 1e-8, 12345.678, -0.7, 2.5, 1e300, 5e-324, 1.1, 3.3]
F64_FINITE = [x for x in F64_POOL if x == x and x not in (float('inf'), float('-inf'))]
SMALL_DYADIC = [0.0, 1.0, 2.0, 3.0, -1.0, 0.5, -2.25, 3.75, 1.5, -0.0, 7.0, 0.75, 2.5, -3.0, 6.0, 0.25, 1.25, -1.5, 5.0, 10.0]


def ieee_representable(x: float, es: int, nbits: int) -> bool:
    if x != x or x in (float('inf'), float('-inf')) or x == 0:
        return True
    p = nbits - es
    emax = (1 << (es - 1)) - 1
    emin = 1 - emax
    q = abs(Fraction(x))
    e = q.numerator.bit_length() - q.denominator.bit_length()
    if Fraction(2) ** e > q:
        e -= 1
    if e > emax:
        return False
    ulp_exp = max(e, emin) - (p - 1)
    return (q / Fraction(2) ** ulp_exp).denominator == 1


def arg_pool(main_ctx: str | None, specials: bool):
    import re
    base = F64_POOL if specials else F64_FINITE
    if main_ctx is None or main_ctx == 'fp.FP64' or main_ctx.startswith('fp.IEEEContext(11, 64') or \
            main_ctx == 'fp.FP128' or main_ctx.startswith('fp.IEEEContext(15, 128'):
        return base
    m = re.match(r'fp\.IEEEContext\((\d+), (\d+),', main_ctx)
    if m:
        es, nbits = int(m.group(1)), int(m.group(2))
    else:
        es, nbits = {'fp.FP16': (5, 16), 'fp.FP32': (8, 32)}[main_ctx]
    pool = [x for x in base + SMALL_DYADIC if ieee_representable(x, es, nbits)]
    return pool


def gen_inputs(ch: Chooser, prog: FpcProgram):
    specials = not (prog.uses_real or prog.uses_fixed) and ch.bool(0.7)
    pool = arg_pool(prog.main_ctx, specials)
    args = []
    for n, t in prog.params:
        if t == 'R':
            args.append(ch.choice(pool))
        elif t[0] == 'L':
            args.append([ch.choice(pool) for _ in range(t[1])])
        else:
            # distinct entries: a transposed access reads a different value
            cells = list(dict.fromkeys(x for x in pool if x == x))
            picked = []
            for _ in range(t[1] * t[2]):
                x = ch.choice(cells) if len(cells) > 1 else pool[0]
                if len(cells) > 1:
                    cells.remove(x)
                picked.append(x)
            args.append([picked[i * t[2]:(i + 1) * t[2]] for i in range(t[1])])
    return args
