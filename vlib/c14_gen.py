"""
C14 generators: pins (caller context + argument formats), inputs drawn from the pinned formats, and a
program generator aimed at the mechanisms of format inference (exact arithmetic under `with fp.REAL`
in statically-sized and dynamically-sized loops, branch refinement by comparisons against literals
and by `fp.logb`, min/max clamps, tuples/lists with stores, explicit rounds).

Everything is driven by a vlib.progen.Chooser, so it runs under a seeded PRNG or Hypothesis.
"""

from __future__ import annotations

from fractions import Fraction

import fpy2 as fp
from fpy2.number import RealFloat

from .c14_member import kind_of, model_of, set_values
from .denote import NAN, NINF, NZERO, PINF, PZERO, pow2, to_float_obj
from .oracle_round import floor_log2, member
from .progen import Chooser

# ---------------------------------------------------------------------------
# pins: texts evaluated in NS (so a replay file is plain JSON)


def RF(q) -> RealFloat:
    q = Fraction(q)
    f = to_float_obj(q if q != 0 else PZERO)
    return RealFloat(s=f.s, c=f.c, exp=f.exp)


def NRF0() -> RealFloat:
    return RealFloat(s=True, c=0, exp=0)


def namespace():
    from fpy2.analysis.format_infer import AbstractFormat, ListFormat, SetFormat, TupleFormat
    from fpy2.analysis.format_infer.analysis import NEG_ZERO, Special
    from fpy2.number.context.mp_fixed import MPFixedFormat
    from fpy2.number.context.mp_float import MPFloatFormat
    from fpy2.number.context.mpb_fixed import MPBFixedFormat
    from fpy2.number.context.mpb_float import MPBFloatFormat
    from fpy2.number.context.mps_float import MPSFloatFormat
    from fpy2.number.context.real import REAL_FORMAT
    return {'fp': fp, 'Fraction': Fraction, 'SetFormat': SetFormat, 'ListFormat': ListFormat, 'TupleFormat': TupleFormat,
            'AbstractFormat': AbstractFormat, 'NEG_ZERO': NEG_ZERO, 'Special': Special, 'REAL_FORMAT': REAL_FORMAT,
            'MPFixedFormat': MPFixedFormat, 'MPBFixedFormat': MPBFixedFormat, 'MPBFloatFormat': MPBFloatFormat,
            'MPSFloatFormat': MPSFloatFormat, 'MPFloatFormat': MPFloatFormat, 'RF': RF, 'NRF0': NRF0, 'S': _S}


def _S(*vals):
    """SetFormat from python values: Fractions/ints/strings 'nz', '+inf', '-inf', 'nan'."""
    from fpy2.analysis.format_infer import SetFormat
    from fpy2.analysis.format_infer.analysis import NEG_ZERO, Special
    m = {'nz': NEG_ZERO, '+inf': Special.POS_INF, '-inf': Special.NEG_INF, 'nan': Special.NAN}
    return SetFormat(frozenset(m[v] if isinstance(v, str) else Fraction(v) for v in vals))


_NS = None


def ev(text):
    global _NS
    if _NS is None:
        _NS = namespace()
    return eval(text, _NS)


CTX_PINS = [
    # (weight, text)
    (6, 'fp.FP16'), (5, 'fp.FP32'), (4, 'fp.FP64'), (8, 'fp.REAL'), (4, 'fp.INTEGER'), (5, 'fp.SINT8'), (3, 'fp.UINT8'),
    (2, 'fp.SINT16'), (2, 'fp.BF16'),
    (3, 'fp.MPFloatContext(5, fp.RM.RTZ)'), (3, 'fp.MPFloatContext(3, fp.RM.RAZ)'), (2, 'fp.MPFloatContext(2, fp.RM.RNE)'),
    (3, 'fp.MPSFloatContext(4, -3, fp.RM.RTP)'), (2, 'fp.MPSFloatContext(3, -2, fp.RM.RNA)'),
    (3, 'fp.MPFixedContext(-2, fp.RM.RNE)'), (2, 'fp.MPFixedContext(-3, fp.RM.RTN)'), (2, 'fp.MPFixedContext(1, fp.RM.RAZ)'),
    (2, 'fp.MPFixedContext(-2, fp.RM.RTN, enable_neg_zero=False)'),
    (3, 'fp.FixedContext(True, -1, 6, fp.RM.RTZ, fp.OV.SATURATE)'), (3, 'fp.FixedContext(True, -2, 8, fp.RM.RNE, fp.OV.WRAP)'),
    (2, 'fp.FixedContext(False, 0, 4, fp.RM.RAZ, fp.OV.SATURATE)'), (2, 'fp.SMFixedContext(0, 5, fp.RM.RNE, fp.OV.SATURATE)'),
    (3, 'fp.IEEEContext(3, 6, fp.RM.RNE)'), (3, 'fp.IEEEContext(4, 8, fp.RM.RTP)'), (2, 'fp.IEEEContext(2, 5, fp.RM.RTN)'),
    (2, 'fp.S1E4M3'), (2, 'fp.MX_E2M1'), (2, 'fp.MX_E4M3'), (2, 'fp.MX_INT8'), (2, 'fp.FP8P3'),
    (2, 'fp.MPBFloatContext(3, -2, RF(12), fp.RM.RAZ, fp.OV.SATURATE)'),
    (2, 'fp.MPBFloatContext(4, -4, RF(30), fp.RM.RNE, fp.OV.OVERFLOW)'),
    (2, 'fp.MPBFixedContext(-2, RF(10), fp.RM.RNE, fp.OV.SATURATE)'),
    (1, 'None'),
]

ARG_FMTS = [
    (6, 'fp.FP16.format()'), (4, 'fp.FP32.format()'), (2, 'fp.FP64.format()'), (7, 'fp.SINT8.format()'), (4, 'fp.UINT8.format()'),
    (4, 'fp.INTEGER.format()'), (2, 'fp.SINT16.format()'),
    (3, 'fp.MPSFloatContext(4, -3).format()'), (3, 'fp.MPFloatContext(3).format()'), (2, 'fp.MPFloatContext(1).format()'),
    (3, 'fp.MPFixedContext(-2).format()'), (3, 'MPFixedFormat(-2, False, False, False)'), (2, 'MPFixedFormat(1, True, True, True)'),
    (3, 'fp.FixedContext(True, -1, 6).format()'), (2, 'fp.FixedContext(False, -2, 5).format()'), (2, 'fp.SMFixedContext(0, 5).format()'),
    (3, 'fp.IEEEContext(3, 6).format()'), (2, 'fp.IEEEContext(2, 5).format()'), (2, 'fp.MX_E2M1.format()'), (2, 'fp.S1E4M3.format()'),
    (2, 'fp.MX_E4M3.format()'), (2, 'fp.MX_INT8.format()'), (2, 'fp.FP8P3.format()'),
    (3, 'MPBFixedFormat(-1, RF(5), RF(-3), False, False, False)'), (2, 'MPBFixedFormat(-3, RF(Fraction(7, 4)), RF(-1), True, False, True)'),
    (2, 'MPBFixedFormat(-1, RF(6), NRF0(), False, False, False)'),
    (3, 'MPBFloatFormat(3, -2, RF(12), None, False, False)'), (2, 'MPBFloatFormat(2, -1, RF(3), RF(-6), True, False)'),
    (2, 'MPSFloatFormat(2, -1, False, True)'),
    (3, 'S(1, 2)'), (2, "S(0, 'nz')"), (2, 'S(-3, Fraction(1, 2))'), (2, "S('+inf', 1)"), (2, 'S(0)'), (2, 'S(Fraction(1, 10), 3)'),
    (1, "S('nan', '-inf', -2)"), (2, 'S(4, 8, -8)'),
    (3, 'REAL_FORMAT'),
]

REAL_POOL = [PZERO, NZERO, Fraction(1), Fraction(2), Fraction(3), Fraction(-1), Fraction(7), Fraction(1, 2), Fraction(1, 10),
             Fraction(-9, 4), Fraction(15, 4), Fraction(1, 1024), Fraction(10**10), Fraction(100), Fraction(1, 3), Fraction(-5, 7),
             Fraction(255), Fraction(65504), PINF, NINF, NAN, Fraction(-128), Fraction(127), Fraction(1, 4)]


def sample_den(bound, ch: Chooser):
    """A member of a scalar bound (Format / SetFormat), boundary-biased; always verified by the oracle."""
    k = kind_of(bound)
    if k == 'set':
        vals = sorted(set_values(bound), key=str)
        return ch.choice(vals)
    m = model_of(bound)
    assert m is not None, bound
    if m.kind == 'real':
        return ch.choice(REAL_POOL)
    for _ in range(12):
        d = _sample_model(m, ch)
        if d is not None and member(m, d):
            return d
    return PZERO


def _snap(m, q: Fraction):
    """Nearest-below (by magnitude) grid point of m for a positive rational q."""
    if q <= 0:
        return None
    e = floor_log2(q)
    if m.p is None:
        n = m.nmin
    else:
        n = e - m.p if m.nmin is None else max(m.nmin, e - m.p)
    ulp = pow2(n + 1)
    t = q / ulp
    kq = t.numerator // t.denominator
    return kq * ulp


def _sample_model(m, ch: Chooser):
    kind = ch.weighted([(8, 'zero'), (5, 'special'), (10, 'edge'), (14, 'small'), (14, 'grid'), (8, 'tiny')])
    neg = ch.bool(0.45)
    if kind == 'zero':
        return NZERO if (neg and m.has_neg_zero) else PZERO
    if kind == 'special':
        opts = []
        if m.has_nan:
            opts.append(NAN)
        if m.has_inf:
            opts += [PINF, NINF]
        if m.has_neg_zero:
            opts.append(NZERO)
        return ch.choice(opts) if opts else PZERO
    if kind == 'edge':
        b = m.neg_max if neg else m.pos_max
        if b is None:
            q = pow2(ch.int(6, 14)) * ch.int(1, 15)
            q = _snap(m, q)
            return None if not q else (-q if neg else q)
        if b == 0:
            return PZERO
        a = abs(b)
        j = ch.int(0, 2)
        if j == 0:
            return b
        q = _snap(m, a - a / ch.choice([64, 16, 3]))
        return None if not q else (-q if neg else q)
    if kind == 'small':
        q = Fraction(ch.choice([1, 1, 2, 3, 4, 5, 7, 8, 15, 16, 17, 100, 127, 128])) / ch.choice([1, 1, 1, 2, 4, 8])
        return -q if neg else q
    if kind == 'tiny':
        if m.nmin is None:
            q = pow2(-ch.int(5, 20)) * ch.int(1, 7)
        else:
            q = pow2(m.nmin + 1) * ch.int(1, 9)
        q = _snap(m, q)
        return None if not q else (-q if neg else q)
    # full-precision grid point at a random exponent
    lo = -10 if m.nmin is None else m.nmin + 1
    hi = 10 if m.pos_max is None or m.pos_max == 0 else floor_log2(m.pos_max)
    if hi < lo:
        hi = lo
    e = ch.int(lo, hi)
    p = m.p if m.p is not None else ch.int(1, 8)
    c = ch.int(1 << (p - 1), (1 << p) - 1) if p < 30 else ch.int(1 << 29, (1 << 30) - 1) << (p - 30)
    q = _snap(m, Fraction(c) * pow2(e - p + 1))
    return None if not q else (-q if neg else q)


def den_to_arg(d):
    """Python-boundary value carrying denotation d."""
    if isinstance(d, Fraction) and d.denominator & (d.denominator - 1):
        return d
    return to_float_obj(d)


# ---------------------------------------------------------------------------
# program generator

LITS = ['0', '1', '2', '3', '4', '7', '0.5', '0.25', '1.5', '-1', '-2', '8', '16', '100', '0.125', '-0.0', '0.1', '5', '255', '1e3']
CMP_LITS = ['0', '1', '2', '4', '5', '8', '0.5', '16', '100', '-1', '-4', '0.1', '3', '-0.5', '64', '1000']
WITH_CTXS = [
    (30, 'fp.REAL'), (5, 'fp.FP16'), (4, 'fp.FP32'), (3, 'fp.INTEGER'), (4, 'fp.SINT8'), (2, 'fp.UINT8'),
    (3, 'fp.MPFloatContext(3, fp.RM.RAZ)'), (3, 'fp.MPFixedContext(-2, fp.RM.RTN)'), (3, 'fp.IEEEContext(3, 6, fp.RM.RTP)'),
    (3, 'fp.FixedContext(True, -1, 6, fp.RM.RTZ, fp.OV.WRAP)'), (2, 'fp.FixedContext(True, 0, 5, fp.RM.RNE, fp.OV.SATURATE)'),
    (2, 'fp.MPSFloatContext(3, -2, fp.RM.RTN)'), (2, 'fp.MX_E2M1'), (2, 'fp.S1E4M3'),
    (2, 'fp.MPFixedContext(-1, fp.RM.RNE, enable_neg_zero=False)'), (2, 'fp.MPFixedContext(1, fp.RM.RAZ)'), (2, 'fp.MPFloatContext(2, fp.RM.RTP)'),
]


class XProgram:
    def __init__(self, src, params, min_len, features, ret):
        self.src = src
        self.main = 'main'
        self.params = params        # [(name, 'R' | 'L')]
        self.min_len = min_len
        self.features = features
        self.ret_type = ret
        self.helpers = []


class XGen:
    def __init__(self, ch: Chooser, depth=3, expr_depth=3, max_stmts=6):
        self.ch = ch
        self.depth = depth
        self.ed = expr_depth
        self.max_stmts = max_stmts
        self.vars = []          # scalar names in scope
        self.lists = {}         # list name -> known min length
        self.tuples = []
        self.n = 0
        self.features = set()
        self.real_depth = 0     # inside `with fp.REAL`
        self.protected = set()
        self.iterating = []     # lists being iterated by an enclosing `for` (never stored into: known finding)

    def fresh(self, p):
        self.n += 1
        return f'{p}{self.n}'

    # -- expressions ---------------------------------------------------------
    def atom(self):
        ch = self.ch
        if self.vars and ch.bool(0.7):
            return ch.choice(self.vars)
        return ch.choice(LITS)

    def expr(self, d):
        ch = self.ch
        if d <= 0:
            return self.atom()
        opts = [(26, 'bin'), (10, 'atom'), (6, 'neg'), (5, 'abs'), (5, 'minmax'), (4, 'ifexp'), (3, 'round')]
        if self.lists:
            opts += [(5, 'index'), (3, 'sum'), (2, 'lmin'), (1, 'len')]
        if self.tuples:
            opts.append((3, 'fst'))
        opts += [(2, 'exp2'), (1, 'logb')]
        k = ch.weighted(opts)
        if k == 'atom':
            return self.atom()
        if k == 'bin':
            return f'({self.expr(d - 1)} {ch.choice(["+", "-", "*", "+", "-", "*", "*"])} {self.expr(d - 1)})'
        if k == 'neg':
            return f'(-{self.expr(d - 1)})'
        if k == 'abs':
            return f'abs({self.expr(d - 1)})'
        if k == 'minmax':
            self.features.add('clamp')
            return f'{ch.choice(["min", "max"])}({self.expr(d - 1)}, {self.expr(d - 1)})'
        if k == 'ifexp':
            return f'({self.expr(d - 1)} if {self.cond(1)} else {self.expr(d - 1)})'
        if k == 'round':
            return f'fp.round({self.expr(d - 1)})'
        if k == 'index':
            l = ch.choice(sorted(self.lists))
            if self.lists[l] <= 0:
                return f'sum({l})'
            return f'{l}[{ch.int(0, self.lists[l] - 1)}]'
        if k == 'sum':
            self.features.add('sum')
            return f'sum({ch.choice(sorted(self.lists))})'
        if k == 'lmin':
            l = ch.choice(sorted(self.lists))
            if self.lists[l] <= 0:
                return f'sum({l})'
            return f'{ch.choice(["min", "max"])}({l})'
        if k == 'len':
            return f'len({ch.choice(sorted(self.lists))})'
        if k == 'fst':
            return f'fp.{ch.choice(["fst", "snd"])}({ch.choice(self.tuples)})'
        if k == 'exp2':
            self.features.add('exp2')
            return f'(2 ** {ch.choice(["1", "3", "-2", "len(" + sorted(self.lists)[0] + ")" if self.lists else "2"])})'
        if k == 'logb':
            self.features.add('logb-expr')
            return f'fp.logb({self.atom()})'
        raise ValueError(k)

    def cond(self, d):
        ch = self.ch
        k = ch.weighted([(14, 'cmp'), (3, 'not'), (3, 'and'), (3, 'or'), (2, 'cmp2')]) if d > 0 else 'cmp'
        if k == 'cmp':
            v = ch.choice(self.vars) if self.vars else ch.choice(LITS)
            lit = ch.choice(CMP_LITS)
            op = ch.choice(['<', '<=', '>', '>=', '<', '<=', '>', '>=', '==', '!='])
            return f'({v} {op} {lit})' if ch.bool(0.7) else f'({lit} {op} {v})'
        if k == 'cmp2':
            return f'({self.expr(1)} {ch.choice(["<", "<=", ">", ">="])} {self.expr(1)})'
        if k == 'not':
            return f'(not {self.cond(d - 1)})'
        if k == 'and':
            return f'({self.cond(d - 1)} and {self.cond(d - 1)})'
        return f'({self.cond(d - 1)} or {self.cond(d - 1)})'

    # -- statements ----------------------------------------------------------
    def snapshot(self):
        return (list(self.vars), dict(self.lists), list(self.tuples), set(self.protected))

    def restore(self, s):
        self.vars, self.lists, self.tuples, self.protected = list(s[0]), dict(s[1]), list(s[2]), set(s[3])

    def target(self):
        ch = self.ch
        cands = [v for v in self.vars if v not in self.protected]
        if cands and ch.bool(0.6):
            return ch.choice(cands), False
        return self.fresh('v'), True

    def block(self, ind, n, depth, out, in_loop=False):
        n0 = len(out)
        for _ in range(n):
            self.stmt(ind, depth, out, in_loop)
        if len(out) == n0:
            out.append(f'{ind}pass')

    def stmt(self, ind, depth, out, in_loop):
        ch = self.ch
        opts = [(26, 'assign'), (8, 'aug')]
        if depth > 0:
            opts += [(12, 'with'), (10, 'if'), (6, 'if1'), (9, 'for-range'), (4, 'while'), (6, 'logb-if')]
            if self.lists:
                opts += [(7, 'for-list'), (2, 'for-enum')]
        opts += [(4, 'list'), (3, 'tuple')]
        if self.lists:
            opts += [(5, 'store')]
        k = ch.weighted(opts)
        if k == 'assign':
            v, new = self.target()
            out.append(f'{ind}{v} = {self.expr(self.ed)}')
            if new:
                self.vars.append(v)
        elif k == 'aug':
            cands = [v for v in self.vars if v not in self.protected]
            if not cands:
                return
            out.append(f'{ind}{ch.choice(cands)} {ch.choice(["+=", "-=", "*="])} {self.expr(self.ed - 1)}')
        elif k == 'with':
            ctx = ch.weighted(WITH_CTXS)
            out.append(f'{ind}with {ctx}:')
            if ctx == 'fp.REAL':
                self.features.add('with-real')
                if in_loop:
                    self.features.add('real-in-loop')
            s = self.snapshot()
            self.block(ind + '    ', ch.int(1, 3), depth - 1, out, in_loop)
            new_vars = [v for v in self.vars if v not in s[0]]
            self.restore(s)
            self.vars += new_vars          # a `with` block is not a scope for names
        elif k in ('if', 'if1'):
            out.append(f'{ind}if {self.cond(2)}:')
            self.features.add('refine')
            s = self.snapshot()
            self.block(ind + '    ', ch.int(1, 3), depth - 1, out, in_loop)
            v1 = [v for v in self.vars if v not in s[0]]
            self.restore(s)
            if k == 'if':
                out.append(f'{ind}else:')
                self.block(ind + '    ', ch.int(1, 2), depth - 1, out, in_loop)
                v2 = [v for v in self.vars if v not in s[0]]
                self.restore(s)
                self.vars += [v for v in v1 if v in v2]
        elif k == 'logb-if':
            if not self.vars:
                return
            v = ch.choice(self.vars)
            e = self.fresh('e')
            out.append(f'{ind}{e} = fp.logb({v})')
            self.vars.append(e)
            self.protected.add(e)
            lit = ch.choice(['0', '1', '2', '-1', '-3', '4', '-10', '0.5'])
            c = f'{e} {ch.choice([">=", ">", ">=", "<", "<="])} {lit}' if ch.bool(0.8) else f'{lit} {ch.choice(["<=", "<"])} {e}'
            if ch.bool(0.2):
                c = f'({c}) and ({self.cond(0)})'
            out.append(f'{ind}if {c}:')
            self.features.add('refine-logb')
            s = self.snapshot()
            self.block(ind + '    ', ch.int(1, 3), depth - 1, out, in_loop)
            self.restore(s)
        elif k == 'for-range':
            i = self.fresh('i')
            n = ch.weighted([(1, 0), (3, 1), (5, 2), (5, 3), (3, 4), (1, 6)])
            form = ch.int(0, 3)
            rng = f'range({n})' if form < 2 else (f'range(1, {n + 1})' if form == 2 else f'range({2 * n}, 0, -2)')
            out.append(f'{ind}for {i} in {rng}:')
            self.features.add('for-static')
            s = self.snapshot()
            self.vars.append(i)
            self.protected.add(i)
            self.block(ind + '    ', ch.int(1, 3), depth - 1, out, True)
            self.restore(s)
        elif k == 'for-list':
            x = self.fresh('x')
            l = ch.choice(sorted(self.lists))
            out.append(f'{ind}for {x} in {l}:')
            self.features.add('for-dynamic' if l.startswith('a') else 'for-static')
            s = self.snapshot()
            self.vars.append(x)
            self.protected.add(x)
            self.iterating.append(l)
            self.block(ind + '    ', ch.int(1, 3), depth - 1, out, True)
            self.iterating.pop()
            self.restore(s)
        elif k == 'for-enum':
            i, x = self.fresh('i'), self.fresh('x')
            l = ch.choice(sorted(self.lists))
            out.append(f'{ind}for {i}, {x} in enumerate({l}):')
            self.features.add('for-enum')
            s = self.snapshot()
            self.vars += [i, x]
            self.protected |= {i, x}
            self.iterating.append(l)
            self.block(ind + '    ', ch.int(1, 2), depth - 1, out, True)
            self.iterating.pop()
            self.restore(s)
        elif k == 'while':
            c = self.fresh('k')
            out.append(f'{ind}{c} = {ch.int(0, 3)}')
            self.vars.append(c)
            self.protected.add(c)
            out.append(f'{ind}while {c} > 0:')
            self.features.add('while')
            s = self.snapshot()
            self.block(ind + '    ', ch.int(1, 2), 0 if depth < 2 else 1, out, True)
            self.restore(s)
            out.append(f'{ind}    with fp.REAL:')
            out.append(f'{ind}        {c} = {c} - 1')
        elif k == 'list':
            l = self.fresh('ys')
            n = ch.int(1, 4)
            out.append(f'{ind}{l} = [{", ".join(self.expr(self.ed - 1) for _ in range(n))}]')
            self.lists[l] = n
        elif k == 'tuple':
            t = self.fresh('t')
            out.append(f'{ind}{t} = ({self.expr(self.ed - 1)}, {self.expr(self.ed - 1)})')
            self.tuples.append(t)
            if ch.bool(0.5):
                a, b = self.fresh('v'), self.fresh('v')
                out.append(f'{ind}{a}, {b} = {t}')
                self.vars += [a, b]
        elif k == 'store':
            cands = [l for l in sorted(self.lists) if self.lists[l] > 0 and l not in self.iterating]
            if not cands:
                return
            l = ch.choice(cands)
            out.append(f'{ind}{l}[{ch.int(0, self.lists[l] - 1)}] = {self.expr(self.ed - 1)}')
            self.features.add('store')

    def program(self) -> XProgram:
        ch = self.ch
        params = []
        min_len = {}
        nr = ch.int(1, 3)
        for i in range(nr):
            params.append((f'a{i}', 'R'))
            self.vars.append(f'a{i}')
            self.protected.add(f'a{i}')
        if ch.bool(0.55):
            params.append((f'a{nr}', 'L'))
            min_len[f'a{nr}'] = ch.int(0, 2)
            self.lists[f'a{nr}'] = min_len[f'a{nr}']
        body = []
        wrap_real = ch.bool(0.35)
        ind = '    '
        if wrap_real:
            body.append('    with fp.REAL:')
            ind = '        '
            self.features.add('with-real')
        self.block(ind, ch.int(2, self.max_stmts), self.depth, body)
        rk = ch.weighted([(10, 'R'), (3, 'T'), (2, 'L')])
        if rk == 'R':
            body.append(f'    return {self.expr(2)}')
            ann = 'fp.Real'
        elif rk == 'T':
            body.append(f'    return ({self.expr(1)}, {self.expr(2)})')
            ann = 'tuple[fp.Real, fp.Real]'
        else:
            if self.lists and ch.bool(0.5):
                body.append(f'    return {ch.choice(sorted(self.lists))}')
            else:
                body.append(f'    return [{self.expr(1)}, {self.expr(1)}]')
            ann = 'list[fp.Real]'
        sig = ', '.join(f'{n}: {"fp.Real" if t == "R" else "list[fp.Real]"}' for n, t in params)
        src = '\n'.join(['@fp.fpy', f'def main({sig}) -> {ann}:'] + body) + '\n'
        return XProgram(src, params, min_len, set(self.features), rk)


def gen_xprogram(ch: Chooser, **kw) -> XProgram:
    return XGen(ch, **kw).program()


def choose_pin(ch: Chooser, params):
    """(ctx_text, [fmt_text per param]) - list parameters get ListFormat(<scalar>)."""
    ctx = ch.weighted(CTX_PINS)
    fmts = []
    same = ch.weighted(ARG_FMTS) if ch.bool(0.3) else None
    for _, t in params:
        f = same if same is not None else ch.weighted(ARG_FMTS)
        fmts.append(f if t == 'R' else f'ListFormat({f})')
    return ctx, fmts


def gen_args(ch: Chooser, params, min_len, bounds):
    """Argument denotations (deep) drawn from the pinned bounds."""
    out = []
    for (n, t), b in zip(params, bounds):
        if t == 'R':
            out.append(sample_den(b, ch))
        else:
            k = min_len.get(n, 0) + ch.weighted([(2, 0), (3, 1), (3, 2), (2, 3), (1, 5)])
            out.append([sample_den(b.elt, ch) for _ in range(k)])
    return out


def args_from_dens(dens):
    return [[den_to_arg(x) for x in d] if isinstance(d, list) else den_to_arg(d) for d in dens]
