"""
Load FPy programs from generated *source text* through the real `@fp.fpy` decorator and parser.

    mod = load_module(src)          # src is Python text using `fp.` names; returns the module
    f = mod.main                     # an fpy2.Function

A synthetic module is registered in sys.modules and its text in linecache so that `inspect`
(used by the decorator) finds the source.  Nothing is written to disk.
"""

from __future__ import annotations

import itertools
import linecache
import sys
import types

import fpy2 as fp

_counter = itertools.count()


def load_module(src: str, name: str | None = None, extra_globals: dict | None = None):
    if name is None:
        name = f'_vt_mod_{next(_counter)}'
    fname = f'<{name}>'
    mod = types.ModuleType(name)
    mod.__file__ = fname
    mod.__dict__['fp'] = fp
    if extra_globals:
        mod.__dict__.update(extra_globals)
    sys.modules[name] = mod
    lines = src.splitlines(keepends=True)
    linecache.cache[fname] = (len(src), None, lines, fname)
    try:
        exec(compile(src, fname, 'exec'), mod.__dict__)
    except BaseException:
        unload(mod)
        raise
    return mod


def unload(mod):
    sys.modules.pop(mod.__name__, None)
    linecache.cache.pop(getattr(mod, '__file__', ''), None)
