"""
C09 helper: program generator extension (on top of vlib.progen) and call-site analysis.

`Gen9` subclasses `progen.Gen` (nothing in progen changes) and adds the productions the C09
design asks for:

  * caller/callee chains of depth <= 3 (1-3 helpers; a helper may call every earlier helper);
  * helper parameters named like the caller's parameters (`a0`, `a1`), so a transform that binds
    arguments without fresh names is exposed; helper locals share the `v1, xs1, ...` name space of the
    caller by construction of progen;
  * captured module-level data (ints, floats incl. -0.0/inf/nan, Fractions, bools, tuples, flat and
    nested lists) that is only ever READ (never aliased, never passed to a call: see DESIGN F7);
  * a function-leading statement that binds a LOCAL with the name of a captured global (callee local
    named like a caller free variable and vice versa);
  * multi-return helpers, calls in a `while` condition (both must be refused by `inline`);
  * a call twice in one expression on the same (mutated) list, calls in comprehensions / conditions;
  * context constructors whose arguments are local variables (constant, redefined between uses,
    updated inside a loop, the loop variable itself), `with ... as ctx` names.

`site_info(func)` walks the *real* fpy2 AST of a loaded function and describes every call to a user
function by where it sits (under how many `with`, in a loop, in a comprehension, in a conditionally
evaluated operand, after an operand that reads the store, in a `while` condition) and what the callee
is (own context, writes a list parameter, number of returns, free data names).  Classes and failure
buckets are computed from this, not from what the generator believes it produced.
"""

from __future__ import annotations

from vlib import progen

# ---------------------------------------------------------------------------
# captured module-level data

GLOBAL_KINDS = [
    # (kind, prefix, value texts)
    ('int', 'K', ['3', '0', '-2', '7', '1001', '1', '12']),
    ('float', 'F', ['0.1', '2.5', '-0.0', '1e-3', '0.3', '6.0', "float('inf')", "float('nan')", '1e10', '-7.25']),
    ('frac', 'Q', ['Fraction(1, 3)', 'Fraction(-5, 7)', 'Fraction(3, 8)', 'fp.Float(s=True, c=0, exp=0)', 'fp.Float(c=5, exp=-3)',
                   'fp.Float(isnan=True)', 'fp.RealFloat(s=True, c=3, exp=-1)', 'fp.Float.from_float(0.1)', 'fp.Float(s=True, isinf=True)']),
    ('bool', 'B', ['True', 'False']),
    ('tuple', 'T', ['(1, 2.5)', '(0.1, -3)', '(7, 0.5)', '(-0.0, 1e-3)']),
    ('list', 'L', ['[1.5, 2, 7]', '[0.1, 0.2, 0.3, 0.4]', '[3]', '[0.5, -0.0]']),
    ('nested', 'N', ['[[1, 2], [3.5, 4]]', '[[0.1], [0.2, 7], [1, 2, 3]]', '[[5, 0.3, 2]]']),
]


def _shape(text):
    """Lengths of a list literal text: [len] for flat, [[len_i...]] for nested."""
    v = eval(text, {})
    if v and isinstance(v[0], list):
        return [len(r) for r in v]
    return len(v)


class Gen9(progen.Gen):
    def __init__(self, ch, profile=None, *, n_globals=(0, 3), p_global=0.12, p_call=0.12, lift_bias=False):
        super().__init__(ch, profile)
        self.gl = []              # (name, kind, text)
        self.p_global = p_global
        self.p_call = p_call
        self.lift_bias = lift_bias
        self.n_globals = n_globals
        self.reads = {}           # function name -> set of global names it reads (as globals)
        self.shadows = {}         # function name -> set of global names it rebinds locally
        self.cur = None           # name of the function being generated
        self.calls = {}           # function name -> set of callee names
        self.shared_ctx = None    # (text, safe) of a context several functions of the chain declare
        self.n_shared = 0

    # -- globals ---------------------------------------------------------------
    def make_globals(self):
        ch = self.ch
        n = ch.int(*self.n_globals)
        for i in range(n):
            kind, prefix, texts = ch.weighted([(4, GLOBAL_KINDS[0]), (4, GLOBAL_KINDS[1]), (2, GLOBAL_KINDS[2]), (1, GLOBAL_KINDS[3]),
                                               (2, GLOBAL_KINDS[4]), (2, GLOBAL_KINDS[5]), (2, GLOBAL_KINDS[6])])
            self.gl.append((f'{prefix}{i}', kind, ch.choice(texts)))
        if any(g[1] == 'frac' for g in self.gl):
            self.features.add('captured-number-object')

    def _note_read(self, fn, name):
        if name in fn.env:      # shadowed: a local read
            return
        self.reads.setdefault(fn.name, set()).add(name)
        self.features.add('reads-global')

    def global_read_R(self, fn):
        ch = self.ch
        cands = [g for g in self.gl if g[1] != 'bool']
        if not cands:
            return None
        name, kind, text = ch.choice(cands)
        if kind in ('int', 'float', 'frac'):
            self._note_read(fn, name)
            return name
        if name in fn.env:
            return None
        self._note_read(fn, name)
        if kind == 'tuple':
            return f'fp.{ch.choice(["fst", "snd"])}({name})'
        if kind == 'list':
            n = _shape(text)
            k = ch.int(0, 3)
            if k == 0:
                return f'sum({name})'
            if k == 1:
                return f'len({name})'
            return f'{name}[{ch.int(0, n - 1)}]'
        if kind == 'nested':
            rows = _shape(text)
            i = ch.int(0, len(rows) - 1)
            k = ch.int(0, 3)
            if k == 0:
                return f'sum({name}[{i}])'
            if k == 1:
                return f'len({name})'
            return f'{name}[{i}][{ch.int(0, rows[i] - 1)}]'
        return None

    # -- expressions -------------------------------------------------------------
    def _callable(self, fn, ret='R'):
        if fn.name in [h[0] for h in self.helpers]:
            return []
        return [h for h in self.helpers if h[2] == ret]

    def expr_R(self, fn, d):
        ch = self.ch
        if self.gl and ch.bool(self.p_global):
            t = self.global_read_R(fn)
            if t is not None:
                return t
        if d > 0 and ch.bool(self.p_call):
            hs = self._callable(fn)
            if hs:
                h = ch.choice(hs)
                ws = [g for g in hs if g[4] and g is not h]
                two_r = [i for i, (_, t) in enumerate(h[1]) if t == 'R']
                if ws and len(two_r) >= 2 and ch.bool(0.8):
                    t = self.arg_order_call(fn, h, ch.choice(ws), two_r, d)
                    if t is not None:
                        return t
                if h[4] and ch.bool(0.45):
                    t = self.read_then_call(fn, h, d)
                    if t is not None:
                        return t
                if h[4] and ch.bool(0.5):
                    # the same mutating helper twice in one expression, on the same list where possible
                    a = self.call_text(fn, h, d)
                    b = self.call_text(fn, h, d)
                    self.features.add('call-twice-in-expr')
                    return f'({a} {ch.choice(["-", "+", "*", "/"])} {b})'
                return self.call_text(fn, h, d)
        return super().expr_R(fn, d)

    def read_then_call(self, fn, h, d):
        """`L[i] + h(L, ...)`: the statement reads a cell of L before it calls h, which writes L (directly or only
        through a helper it calls)."""
        ch = self.ch
        hl = [pn for pn, pt in h[1] if pt == 'L']
        if not hl:
            return None
        need = max(h[5].get(pn, 0) for pn in hl)
        cands = [l for l in self.vars_of(fn, 'L') if fn.len_lb.get(l, 0) >= max(1, need)]
        if not cands:
            return None
        L = ch.choice(cands)
        args = [L if pt == 'L' else self.expr_R(fn, 0) for pn, pt in h[1]]
        read = ch.choice([f'{L}[0]', f'{L}[{fn.len_lb[L] - 1}]', f'sum({L})', f'max({L})'])
        self.calls.setdefault(fn.name, set()).add(h[0])
        self.features.update({'helper-call', 'helper-mutates-list', 'list-read-before-writing-call',
                              'helper-with-own-ctx' if h[3] else 'helper-without-ctx'})
        return f'({read} {ch.choice(["+", "-", "*"])} {h[0]}({", ".join(args)}))'

    def arg_order_call(self, fn, h, g, r_idx, d):
        """`h(g(L, ...), L[i], ...)`: g writes L, a later argument of h reads it -- the order in which the
        arguments are evaluated and bound is observable."""
        ch = self.ch
        gl = [pn for pn, pt in g[1] if pt == 'L']
        if not gl:
            return None
        need = max(g[5].get(pn, 0) for pn in gl)
        cands = [l for l in self.vars_of(fn, 'L') if fn.len_lb.get(l, 0) >= max(1, need)]
        if not cands:
            return None
        L = ch.choice(cands)
        gargs = [L if pt == 'L' else self.expr_R(fn, 0) for pn, pt in g[1]]
        inner = f'{g[0]}({", ".join(gargs)})'
        first, second = r_idx[0], r_idx[1]
        if ch.bool(0.3):
            first, second = second, first      # the read comes first, the writing call second
        args = []
        for i, (pn, pt) in enumerate(h[1]):
            if i == first:
                args.append(inner)
            elif i == second:
                args.append(ch.choice([f'{L}[0]', f'sum({L})', f'{L}[{fn.len_lb[L] - 1}]']))
            elif pt == 'L':
                lc = [l for l in self.vars_of(fn, 'L') if fn.len_lb.get(l, 0) >= h[5].get(pn, 0)]
                args.append(ch.choice(lc) if lc else '[' + ', '.join(self.expr_R(fn, 0) for _ in range(max(h[5].get(pn, 0), 1))) + ']')
            else:
                args.append(self.expr_R(fn, 0))
        for x in (h, g):
            self.calls.setdefault(fn.name, set()).add(x[0])
            self.features.add('helper-without-ctx' if not x[3] else 'helper-with-own-ctx')
        self.features.update({'helper-call', 'helper-mutates-list', 'call-arg-order-observable'})
        return f'{h[0]}({", ".join(args)})'

    def call_text(self, fn, h, d):
        self.calls.setdefault(fn.name, set()).add(h[0])
        return super().call_text(fn, h, d)

    def expr_L_lb(self, fn, d):
        ch = self.ch
        hs = self._callable(fn, 'L')
        if hs and self.p.comprehension and ch.bool(0.55):
            h = ch.choice(hs)
            ls = self.vars_of(fn, 'L')
            if not ls or ch.bool(0.25):
                return self.call_text(fn, h, max(d, 1)), 0
            # `[... for v in L for w in h(..v..)]`: the later iterable is evaluated once per element of the earlier
            # generator, with its target bound; the target is often a name the caller also uses
            l = ch.choice(ls)
            rv = [x for x in self.vars_of(fn, 'R') if x not in fn.protected]
            v = ch.choice(rv) if (rv and ch.bool(0.65)) else fn.fresh('e')
            w = fn.fresh('e')
            had = v in fn.env
            fn.env[v] = 'R'
            args = []
            used_v = False
            for pn, pt in h[1]:
                if pt == 'L':
                    cands = [x for x in ls if fn.len_lb.get(x, 0) >= h[5].get(pn, 0)]
                    if cands:
                        args.append(ch.choice(cands))
                    else:
                        args.append('[' + ', '.join([v] * max(h[5].get(pn, 0), 1)) + ']')
                        used_v = True
                elif not used_v:
                    args.append(v)
                    used_v = True
                else:
                    args.append(self.expr_R(fn, 0))
            self.calls.setdefault(fn.name, set()).add(h[0])
            fn.env[w] = 'R'
            body = ch.choice([f'({w} + {v})', f'({w} * {v})', w, self.expr_R(fn, 1)])
            del fn.env[w]
            if not had:
                del fn.env[v]
            self.features.update({'helper-call', 'comprehension', 'call-in-later-comprehension-generator'})
            if h[4]:
                self.features.add('helper-mutates-list')
            return f'[{body} for {v} in {l} for {w} in {h[0]}({", ".join(args)})]', 0
        return super().expr_L_lb(fn, d)

    def expr_B(self, fn, d):
        ch = self.ch
        if ch.bool(0.06):
            bs = [g for g in self.gl if g[1] == 'bool' and g[0] not in fn.env]
            if bs:
                name = ch.choice(bs)[0]
                self._note_read(fn, name)
                return name
        if d > 0 and ch.bool(0.06):
            hs = self._callable(fn, 'B')
            if hs:
                return self.call_text(fn, ch.choice(hs), d)
        return super().expr_B(fn, d)

    # -- statements --------------------------------------------------------------
    def _range_vars(self, fn, out):
        vs = []
        for v in fn.protected:
            if v.startswith('i') and fn.env.get(v) == 'R':
                for ln in reversed(out):
                    if f'for {v} in range(' in ln:
                        vs.append(v)
                        break
                    if f'for {v}' in ln or f'for {v},' in ln:
                        break
        return sorted(vs)

    def stmt(self, fn, ind, depth, out, in_loop, in_with):
        ch = self.ch
        ctxargs = sorted(n for n in getattr(fn, 'ctxargs', ()) if n in fn.env)
        w = 0.30 if self.lift_bias else 0.08
        if depth > 0 and self.p.with_blocks and ch.bool(w):
            k = ch.weighted([(3, 'def'), (5, 'use'), (3, 'upd'), (3, 'loopvar'), (2, 'asname'), (2, 'ctxassign'), (4, 'variant-loop')])
            if k in ('def', 'asname') and ch.bool(0.6):
                k = 'same-text'
            if k == 'same-text':
                # two (or three) `with` headers with IDENTICAL constructor text whose local argument is rebound to a
                # different constant in between; every site is statically evaluable, each to a different context
                n = fn.fresh('n')
                rm = ch.choice(self.p.rm_pool)
                form = ch.int(0, 2)
                if form == 0:
                    text, vals = f'fp.MPFixedContext({n}, fp.RM.{rm})', [-1, -2, -3, -5, -8]
                elif form == 1:
                    text, vals = f'fp.MPFloatContext({n}, fp.RM.{rm})', [2, 3, 4, 6, 9]
                else:
                    text, vals = f'fp.MPFixedContext({n})', [-2, -3, -6, -9]
                k_sites = ch.int(2, 3)
                consts = []
                while len(consts) < k_sites:
                    c = ch.choice(vals)
                    if not consts or c != consts[-1]:
                        consts.append(c)
                vs = [v for v in self.vars_of(fn, 'R') if v not in fn.protected]
                src_v = ch.choice(self.vars_of(fn, 'R')) if self.vars_of(fn, 'R') else self.lit()
                in_for = depth > 1 and ch.bool(0.5)
                for j, c in enumerate(consts):
                    out.append(f'{ind}{n} = {c}')
                    tgt = ch.choice(vs) if (vs and ch.bool(0.7)) else fn.fresh('v')
                    body = ch.choice([f'{tgt} = fp.round({src_v} / 3)', f'{tgt} = {src_v} / 7 + {self.expr_R(fn, 0)}', f'{tgt} = fp.round({src_v})'])
                    if in_for and j == len(consts) - 1:
                        i = fn.fresh('i')
                        out.append(f'{ind}for {i} in range({ch.int(1, 3)}):')
                        out.append(f'{ind}    with {text}:')
                        out.append(f'{ind}        {body}')
                        if tgt not in fn.env:
                            continue        # bound only inside the loop: not visible afterwards
                    else:
                        out.append(f'{ind}with {text}:')
                        out.append(f'{ind}    {body}')
                        fn.env[tgt] = 'R'
                        if tgt not in vs:
                            vs.append(tgt)
                fn.env[n] = 'R'
                fn.protected.add(n)
                self.features.update({'same-ctor-text-rebound', 'ctor-reads-local', 'ctxarg-redefined', 'with'})
                return False
            if k == 'variant-loop' and depth > 1:
                # the whole pattern in one piece: a constructor whose argument changes on every iteration (must stay in
                # the loop), feeding a variable that later code is likely to read
                n = fn.fresh('n')
                out.append(f'{ind}{n} = {ch.int(2, 4)}')
                vs = [v for v in self.vars_of(fn, 'R') if v not in fn.protected]
                acc = ch.choice(vs) if vs else fn.fresh('v')
                if not vs:
                    out.append(f'{ind}{acc} = {self.expr_R(fn, 1)}')
                    fn.env[acc] = 'R'
                fn.env[n] = 'R'
                fn.protected.add(n)
                i = fn.fresh('i')
                out.append(f'{ind}for {i} in range({ch.int(2, 4)}):')
                rm = ch.choice(self.p.rm_pool)
                arg = ch.choice([n, n, f'{n} + 1'])
                out.append(f'{ind}    with fp.MPFloatContext({arg}, fp.RM.{rm}):')
                out.append(f'{ind}        {acc} = {acc} / 3 + {self.expr_R(fn, 0)}')
                if ch.bool(0.5):
                    out.append(f'{ind}    with fp.REAL:')
                    out.append(f'{ind}        {n} = {n} + 1')
                else:
                    out.append(f'{ind}    {n} = {n} + 1')
                self.features.update({'ctxarg-loop-variant', 'ctxarg-redefined', 'ctor-reads-local', 'with-inside-loop', 'with', 'for'})
                return False
            if k == 'ctxassign':
                # a context built by a plain assignment (its arguments are computed under the ACTIVE context), used later
                text, safe = self.ctx_text(fn)
                if not text.startswith('fp.') or '(' not in text:
                    text, safe = 'fp.MPFloatContext(10 / 2, fp.RM.RTZ)', True
                cv = fn.fresh('c')
                out.append(f'{ind}{cv} = {text}')
                fn.ctxvars[cv] = safe
                self.features.add('ctx-by-assignment')
                return False
            if k == 'def' or (k in ('use', 'upd') and not ctxargs):
                n = fn.fresh('n')
                out.append(f'{ind}{n} = {ch.int(2, 6)}')
                fn.env[n] = 'R'
                fn.protected.add(n)
                if not hasattr(fn, 'ctxargs'):
                    fn.ctxargs = set()
                fn.ctxargs.add(n)
                self.features.add('ctxarg-local')
                if k == 'def':
                    return False
                ctxargs = [n]
            if k == 'upd':
                n = ch.choice(ctxargs)
                if ch.bool(0.5):
                    out.append(f'{ind}{n} = {ch.int(2, 6)}')
                else:
                    out.append(f'{ind}with fp.REAL:')
                    out.append(f'{ind}    {n} = {n} + 1')
                self.features.add('ctxarg-redefined')
                if in_loop:
                    self.features.add('ctxarg-loop-variant')
                return False
            if k == 'use':
                n = ch.choice(ctxargs)
                arg = ch.choice([n, n, f'{n} + 1', f'2 * {n}'])
                return self._with_block(fn, ind, depth, out, in_loop, in_with, self._ctor(arg), 'ctor-reads-local')
            if k == 'loopvar':
                rv = self._range_vars(fn, out)
                if rv:
                    v = ch.choice(rv)
                    return self._with_block(fn, ind, depth, out, in_loop, in_with, self._ctor(f'{v} + 2'), 'ctor-loop-variable')
                if depth > 1:
                    v = fn.fresh('i')
                    out.append(f'{ind}for {v} in range({ch.int(0, 3)}):')
                    snap = self.snapshot(fn)
                    fn.env[v] = 'R'
                    fn.protected.add(v)
                    self._with_block(fn, ind + '    ', depth - 1, out, True, in_with, self._ctor(f'{v} + 2'), 'ctor-loop-variable')
                    after = self.snapshot(fn)
                    self.restore(fn, snap)
                    for nme in list(fn.len_lb):
                        if nme in after[1]:
                            fn.len_lb[nme] = min(fn.len_lb[nme], after[1][nme])
                    return False
            if k == 'asname':
                text, safe = self.ctx_text(fn)
                nm = ch.choice(['ctx', 'ctx1', 'ctx', 't'])
                if nm in fn.env:
                    return False
                return self._with_block(fn, ind, depth, out, in_loop, in_with, text, 'with-as-ctx-name', as_name=nm, safe=safe)
        if ch.bool(0.10 if self.lift_bias else 0.04):
            # a plain local named like a temporary a transform would invent (`ctx`, `ctx1`... for lift_context, `t` for inline)
            nm = ch.choice(['ctx', 'ctx', 'ctx1', 'ctx2', 'ctx3', 'ctx4', 'ctx5', 'ctx6', 't'])
            if fn.env.get(nm, 'R') == 'R' and nm not in fn.protected and nm not in fn.ctxvars:
                out.append(f'{ind}{nm} = {self.expr_R(fn, 2)}')
                fn.env[nm] = 'R'
                self.features.add('local-named-like-transform-temporary')
                return False
        if depth > 0 and fn.safe and ch.bool(0.05):
            hs = self._callable(fn)
            if hs and self.p.while_loops:
                # a call in a `while` condition: inlining it must be refused
                c = fn.fresh('k')
                out.append(f'{ind}{c} = {ch.int(0, 3)}')
                fn.env[c] = 'R'
                fn.protected.add(c)
                call = self.call_text(fn, ch.choice(hs), 1)
                form = ch.int(0, 2)
                if form == 0:
                    cond = f'{c} > 0 and {call} == {call}'
                elif form == 1:
                    cond = f'{c} > 0 and ({call} < {self.expr_R(fn, 0)} or {c} > 0)'
                else:
                    cond = f'({call} != 0 or {c} > 0) and {c} > 0'
                out.append(f'{ind}while {cond}:')
                snap = self.snapshot(fn)
                if not self.block(fn, ind + '    ', ch.int(1, 2), 0, out, True, in_with):
                    out.append(f'{ind}    {c} = {c} - 1')
                after = self.snapshot(fn)
                self.restore(fn, snap)
                for nme in list(fn.len_lb):
                    if nme in after[1]:
                        fn.len_lb[nme] = min(fn.len_lb[nme], after[1][nme])
                self.features.add('call-in-while-cond')
                return False
        return super().stmt(fn, ind, depth, out, in_loop, in_with)

    def _ctor(self, arg):
        ch = self.ch
        rm = ch.choice(self.p.rm_pool)
        k = ch.int(0, 3)
        if k == 0:
            return f'fp.MPFixedContext(-({arg}), fp.RM.{rm})'
        if k == 1:
            return f'fp.MPSFloatContext({arg}, -4, fp.RM.{rm})'
        return f'fp.MPFloatContext({arg}, fp.RM.{rm})'

    def _with_block(self, fn, ind, depth, out, in_loop, in_with, text, tag, as_name=None, safe=True):
        ch = self.ch
        if as_name:
            out.append(f'{ind}with {text} as {as_name}:')
        else:
            out.append(f'{ind}with {text}:')
        old_safe = fn.safe
        fn.safe = safe
        self.features.add(tag)
        self.features.add('with')
        if in_with:
            self.features.add('nested-with')
        if in_loop:
            self.features.add('with-inside-loop')
        r = self.block(fn, ind + '    ', ch.int(1, 3), depth - 1, out, in_loop, in_with + 1)
        fn.safe = old_safe
        if as_name and not r:
            fn.ctxvars[as_name] = safe
        return r

    # -- functions ---------------------------------------------------------------
    def function9(self, name, is_main):
        ch = self.ch
        p = self.p
        self.cur = name
        nparams = ch.int(1, 3)
        params = []
        minlen = {}
        clash_params = (not is_main) and ch.bool(0.5)
        if clash_params:
            self.features.add('clash:param-names')
        shape = None
        if not is_main and p.lists and ch.bool(0.45):
            # shapes that make argument order observable: a writer (L, R...) and a consumer with >= 2 real parameters
            shape = ['L', 'R', 'R'][:ch.int(2, 3)] if len(self.helpers) % 2 == 0 else ['R', 'R', 'L'][:ch.int(2, 3)]
            nparams = len(shape)
        for i in range(nparams):
            t = 'L' if (p.lists and ch.bool(0.4)) else 'R'
            if shape is not None:
                t = shape[i]
            pn = f'{"a" if (is_main or clash_params) else "p"}{i}'
            params.append((pn, t))
            if t == 'L':
                minlen[pn] = ch.int(0 if is_main else 1, 3)
        own_ctx = None
        if self.shared_ctx is not None and ch.bool(0.75 if is_main else 0.6):
            # the SAME declared context on several functions of the chain (caller and callee declare equivalent contexts)
            own_ctx, safe = self.shared_ctx
            self.n_shared += 1
            if self.n_shared >= 2:
                self.features.add('same-declared-ctx-on-chain')
        elif not is_main and ch.bool(0.5):
            own_ctx, safe = self.ctx_text(None, allow_computed=False)
        elif is_main and ch.bool(0.15):
            own_ctx, safe = self.ctx_text(None, allow_computed=False)
        else:
            safe = is_main
        fn = progen._Fn(self, name, params, safe, is_main)
        fn.len_lb.update(minlen)
        if is_main:
            fn.ret_type = 'R' if ch.bool(0.7) else ch.choice(['L', 'B', 'T', 'R'])
        else:
            fn.ret_type = ch.weighted([(15, 'R'), (2, 'B'), (5 if p.lists and p.comprehension else 0, 'L')])
        if not p.lists and fn.ret_type == 'L':
            fn.ret_type = 'R'
        if not p.tuples and fn.ret_type == 'T':
            fn.ret_type = 'R'
        body = []
        # a local with the name of a captured scalar global (shadowing)
        scal = [g[0] for g in self.gl if g[1] in ('int', 'float', 'frac')]
        if scal and ch.bool(0.2):
            g = ch.choice(scal)
            # the right-hand side must not read the name it is about to make local
            saved = self.gl
            self.gl = [x for x in self.gl if x[0] != g]
            body.append(f'    {g} = {self.expr_R(fn, 2)}')
            self.gl = saved
            fn.env[g] = 'R'
            self.shadows.setdefault(name, set()).add(g)
            self.features.add('shadows-global')
        nst = ch.int(2, p.max_stmts) if is_main else ch.int(1, 3)
        mutates = False
        writers = [g for g in self.helpers if g[4] and g[2] == 'R' and any(pt == 'L' for _, pt in g[1])]
        mine = [pn for pn in sorted(minlen)]
        if not is_main and p.helpers_mutate and writers and mine and ch.bool(0.4):
            # a relay: this helper writes the caller's list ONLY through a helper it calls (no store of its own)
            g = ch.choice(writers)
            need = max([g[5].get(pn, 0) for pn, pt in g[1] if pt == 'L'] + [1])
            ok = [pn for pn in mine if minlen[pn] >= need]
            if not ok:
                pn0 = mine[0]
                minlen[pn0] = need
                fn.len_lb[pn0] = need
                ok = [pn0]
            L = ch.choice(ok)
            gargs = [L if pt == 'L' else self.expr_R(fn, 1) for pn, pt in g[1]]
            v = fn.fresh('v')
            body.append(f'    {v} = {g[0]}({", ".join(gargs)})')
            fn.env[v] = 'R'
            self.calls.setdefault(name, set()).add(g[0])
            self.features.add('helper-writes-only-through-callee')
            mutates = True
        elif not is_main and p.helpers_mutate and minlen and ch.bool(0.7):
            l = ch.choice(sorted(minlen))
            if minlen[l] > 0:
                body.append(f'    {l}[{ch.int(0, minlen[l] - 1)}] = {self.expr_R(fn, 2)}')
                mutates = True
        if not is_main and p.early_return and ch.bool(0.12):
            body.append(f'    if {self.expr_B(fn, 1)}:')
            body.append(f'        return {self.expr(fn, fn.ret_type, 1)}')
            self.features.add('multi-return-helper')
        returned = self.block(fn, '    ', nst, p.max_depth if is_main else 1, body)
        if not returned:
            body.append(f'    return {self.expr(fn, fn.ret_type, p.expr_depth)}')
        sig = ', '.join(n for n, _ in params)
        deco = '@fp.fpy' if own_ctx is None else f'@fp.fpy(ctx={own_ctx})'
        self.lines += [deco, f'def {name}({sig}):'] + body + ['']
        if own_ctx is not None:
            self.features.add('main-with-own-ctx' if is_main else 'helper-declares-ctx')
        return (name, params, fn.ret_type, own_ctx is not None, mutates, minlen)

    def make_factory_helpers(self):
        """Closures made by a Python factory: FPy functions that capture the SAME name `k` with DIFFERENT values."""
        ch = self.ch
        for j in range(ch.int(1, 2)):
            own = ch.choice(['', '', '(ctx=fp.MPFloatContext(4, fp.RM.RTZ))', '(ctx=fp.FP32)'])
            body = ch.choice(['        return x * k + k', '        t = x / k\n        return t + k', '        k1 = x - k\n        return k1 * k',
                              '        with fp.MPFloatContext(3, fp.RM.RNE):\n            t = x * k\n        return t / 3'])
            self.lines += [f'def make_f{j}(k):', f'    @fp.fpy{own}', '    def fh(x):'] + body.split('\n') + ['    return fh', '']
            vals = ['2', '3.5', '0.1', '-1', '7', '0.3']
            a = ch.choice(vals)
            b = ch.choice([x for x in vals if x != a])
            for nm, val in ((f'fa{j}', a), (f'fb{j}', b)):
                self.lines.append(f'{nm} = make_f{j}({val})')
                self.helpers.append((nm, [('x', 'R')], 'R', bool(own), False, {}))
            self.lines.append('')
        self.features.add('closures-capture-same-name')

    def program9(self, n_helpers=(1, 3)):
        self.make_globals()
        if any(g[1] == 'frac' for g in self.gl):
            self.lines.append('from fractions import Fraction')
        for name, kind, text in self.gl:
            self.lines.append(f'{name} = {text}')
        if self.gl:
            self.lines.append('')
        if n_helpers[1] > 0 and self.ch.bool(0.3):
            self.make_factory_helpers()
        nh = self.ch.int(*n_helpers)
        if nh and self.ch.bool(0.35):
            # counter-safe contexts only: `main` may run `while` loops under it
            self.shared_ctx = (self.ch.choice(['fp.FP64', 'fp.FP32', 'fp.MPFloatContext(5, fp.RM.RTZ)', 'fp.IEEEContext(5, 16, fp.RM.RNE)',
                                               'fp.MPFixedContext(-5, fp.RM.RNA)', 'fp.FP64', 'fp.MPFloatContext(8, fp.RM.RTN)']), True)
        for i in range(nh):
            self.helpers.append(self.function9(f'h{i}', False))
        m = self.function9('main', True)
        # name-clash classes between a caller and its (direct) callees
        for caller, callees in self.calls.items():
            for cal in callees:
                if self.reads.get(cal, set()) & self.shadows.get(caller, set()):
                    self.features.add('clash:callee-free-vs-caller-local')
                if self.shadows.get(cal, set()) & self.reads.get(caller, set()):
                    self.features.add('clash:callee-local-vs-caller-free')
        prog = progen.Program(src='\n'.join(self.lines) + '\n', main='main', params=m[1], min_len=m[5],
                              features=set(self.features), helpers=[h[0] for h in self.helpers], ret_type=m[2])
        prog.globals = list(self.gl)
        prog.helper_info = list(self.helpers)
        return prog


def gen_program9(ch, profile=None, **kw):
    n_helpers = kw.pop('n_helpers', (1, 3))
    return Gen9(ch, profile, **kw).program9(n_helpers)


# ---------------------------------------------------------------------------
# call-site analysis on the real AST

def _ast():
    import fpy2.ast.fpyast as A
    return A


def callee_facts(fn, _memo=None):
    """Facts about a callee `Function`, transitively through the functions it calls."""
    from fpy2.analysis import Reachability
    from fpy2.ast.visitor import DefaultVisitor
    from fpy2.function import Function
    A = _ast()
    if _memo is None:
        _memo = {}
    if id(fn) in _memo:
        return _memo[id(fn)]
    params = {str(a.name) for a in fn.ast.args}
    try:
        my_locals, _ = local_names(fn)
    except Exception:
        my_locals = set()
    facts = {'own_ctx': fn.ast.ctx is not None, 'locals': my_locals, 'writes': False, 'n_returns': len(Reachability.analyze(fn.ast).ret_stmts),
             'free_data': set(), 'depth': 1, 'calls': []}
    env = fn.ast.env
    for fv in fn.ast.free_vars:
        s = str(fv)
        try:
            v = env.get(s) if s in env else None
        except Exception:
            v = None
        if v is not None and not isinstance(v, Function) and not callable(v) and type(v).__name__ != 'module':
            from fpy2.number import Context
            if not isinstance(v, Context):
                facts['free_data'].add(s)

    class V(DefaultVisitor):
        def _visit_indexed_assign(self, stmt, ctx):
            facts['writes'] = True
            super()._visit_indexed_assign(stmt, ctx)

        def _visit_call(self, e, ctx):
            if isinstance(e.fn, Function):
                facts['calls'].append(e.fn)
            super()._visit_call(e, ctx)

    V()._visit_function(fn.ast, None)
    _memo[id(fn)] = facts
    sub = [callee_facts(c, _memo) for c in facts['calls']]
    facts['t_writes'] = facts['writes'] or any(s['t_writes'] for s in sub)
    facts['t_free_data'] = set(facts['free_data']).union(*[s['t_free_data'] for s in sub]) if sub else set(facts['free_data'])
    facts['depth'] = 1 + max([s['depth'] for s in sub], default=0)
    facts['t_multi_return'] = facts['n_returns'] != 1 or any(s['t_multi_return'] for s in sub)
    return facts


def local_names(func):
    """Names bound inside `func` (parameters and every assignment/loop/with/comprehension target)."""
    from fpy2.analysis import DefineUse
    du = DefineUse.analyze(func.ast)
    free = {str(v) for v in func.ast.free_vars}
    names = set()
    for d in du.defs:
        nm = str(d.name)
        if getattr(d, 'is_free', False):
            continue
        names.add(nm)
    return names, free


def site_info(func):
    """{id(Call node): info dict} for every call to a user `Function` in `func` (not descending into callees)."""
    from fpy2.ast.visitor import DefaultVisitor
    from fpy2.function import Function
    A = _ast()
    STORE_READ = (A.ListRef, A.ListSlice, A.Sum, A.AMax, A.AMin, A.ListComp, A.AnyOf, A.AllOf, A.Zip, A.Enumerate)
    infos = {}
    st = {'with': 0, 'loop': 0, 'comp': 0, 'cond_eval': 0, 'while_cond': 0, 'if_cond': 0, 'ctx_expr': 0,
          'earlier_read': False, 'earlier_call': False, 'earlier_write': False, 'stmt_no': 0}
    memo = {}
    try:
        locs, _free = local_names(func)
    except Exception:
        locs, _free = set(), set()
    from fpy2.number import Context as _Context
    caller_free_data = set()
    for s_ in _free:
        try:
            v_ = func.ast.env.get(s_) if s_ in func.ast.env else None
        except Exception:
            v_ = None
        if v_ is not None and not isinstance(v_, (Function, _Context)) and not callable(v_) and type(v_).__name__ != 'module':
            caller_free_data.add(s_)

    class V(DefaultVisitor):
        def _visit_expr(self, e, ctx):
            if isinstance(e, A.Call) and isinstance(e.fn, Function):
                cf = callee_facts(e.fn, memo)
                inner = []

                class _C(DefaultVisitor):
                    def _visit_call(self, c, ctx):
                        inner.append(c)
                        super()._visit_call(c, ctx)
                for a_ in e.args:
                    _C()._visit_expr(a_, None)
                args_write = any(isinstance(c.fn, Function) and callee_facts(c.fn, memo)['t_writes'] for c in inner)
                try:
                    same_ctx = (func.ast.ctx is not None and e.fn.ast.ctx is not None and hasattr(e.fn.ast.ctx, 'is_equiv')
                                and e.fn.ast.ctx.is_equiv(func.ast.ctx))
                except Exception:
                    same_ctx = False
                infos[id(e)] = {
                    'fn': e.fn, 'args_write': args_write, 'same_ctx_as_caller': bool(same_ctx),
                    'callee': e.fn.name, 'with': st['with'], 'loop': st['loop'] > 0, 'comp': st['comp'] > 0,
                    'cond_eval': st['cond_eval'] > 0, 'while_cond': st['while_cond'] > 0, 'if_cond': st['if_cond'] > 0,
                    'ctx_expr': st['ctx_expr'] > 0,
                    'earlier_read': st['earlier_read'], 'earlier_call': st['earlier_call'], 'earlier_write': st['earlier_write'],
                    'stmt_no': st['stmt_no'],
                    'own_ctx': cf['own_ctx'], 'writes': cf['writes'], 't_writes': cf['t_writes'], 'n_returns': cf['n_returns'],
                    'free_data': sorted(cf['free_data']), 't_free_data': sorted(cf['t_free_data']), 'depth': cf['depth'],
                    't_multi_return': cf['t_multi_return'],
                    'capture': sorted(set(cf['free_data']) & locs), 't_capture': sorted(set(cf['t_free_data']) & locs),
                    'clash_locals': sorted(cf['locals'] & locs), 'clash_local_vs_free': sorted(cf['locals'] & caller_free_data),
                }
            super()._visit_expr(e, ctx)
            if isinstance(e, STORE_READ):
                st['earlier_read'] = True
            if isinstance(e, A.Call) and isinstance(e.fn, Function):
                st['earlier_call'] = True
                st['earlier_read'] = True
                if callee_facts(e.fn, memo)['t_writes']:
                    st['earlier_write'] = True

        def _visit_statement(self, stmt, ctx):
            st['earlier_read'] = False
            st['earlier_call'] = False
            st['earlier_write'] = False
            st['stmt_no'] += 1
            return super()._visit_statement(stmt, ctx)

        def _visit_list_comp(self, e, ctx):
            for k, it in enumerate(e.iterables):
                if k > 0:
                    st['comp'] += 1
                self._visit_expr(it, ctx)
                if k > 0:
                    st['comp'] -= 1
            st['comp'] += 1
            self._visit_expr(e.elt, ctx)
            st['comp'] -= 1

        def _visit_if_expr(self, e, ctx):
            self._visit_expr(e.cond, ctx)
            st['cond_eval'] += 1
            self._visit_expr(e.ift, ctx)
            self._visit_expr(e.iff, ctx)
            st['cond_eval'] -= 1

        def _visit_naryop(self, e, ctx):
            if isinstance(e, (A.And, A.Or)):
                for k, a in enumerate(e.args):
                    if k > 0:
                        st['cond_eval'] += 1
                    self._visit_expr(a, ctx)
                    if k > 0:
                        st['cond_eval'] -= 1
            else:
                super()._visit_naryop(e, ctx)

        def _visit_compare(self, e, ctx):
            for k, a in enumerate(e.args):
                if k > 1:
                    st['cond_eval'] += 1
                self._visit_expr(a, ctx)
                if k > 1:
                    st['cond_eval'] -= 1

        def _visit_while(self, stmt, ctx):
            st['while_cond'] += 1
            self._visit_expr(stmt.cond, ctx)
            st['while_cond'] -= 1
            st['loop'] += 1
            self._visit_block(stmt.body, ctx)
            st['loop'] -= 1

        def _visit_for(self, stmt, ctx):
            self._visit_expr(stmt.iterable, ctx)
            st['loop'] += 1
            self._visit_block(stmt.body, ctx)
            st['loop'] -= 1

        def _visit_if(self, stmt, ctx):
            st['if_cond'] += 1
            self._visit_expr(stmt.cond, ctx)
            st['if_cond'] -= 1
            self._visit_block(stmt.ift, ctx)
            self._visit_block(stmt.iff, ctx)

        def _visit_if1(self, stmt, ctx):
            st['if_cond'] += 1
            self._visit_expr(stmt.cond, ctx)
            st['if_cond'] -= 1
            self._visit_block(stmt.body, ctx)

        def _visit_context(self, stmt, ctx):
            st['ctx_expr'] += 1
            self._visit_expr(stmt.ctx, ctx)
            st['ctx_expr'] -= 1
            st['with'] += 1
            self._visit_block(stmt.body, ctx)
            st['with'] -= 1

    V()._visit_function(func.ast, None)
    return infos


def site_class(info, recursive=True):
    """Root-cause class of a call site: the first rule that applies (used for buckets and exclusions)."""
    cap = info['t_capture'] if recursive else info['capture']
    if cap:
        return 'callee-free-var-captured-by-caller-local'
    if info['comp']:
        return 'call-in-comprehension'
    if info['cond_eval']:
        return 'call-in-conditionally-evaluated-operand'
    if (info['earlier_read'] and (info['t_writes'] or info.get('args_write'))) or info['earlier_write']:
        return 'body-hoisted-past-earlier-operand'
    if info['own_ctx']:
        return 'callee-own-ctx'
    if info['with']:
        return 'callee-takes-callsite-ctx'
    if info['t_writes']:
        return 'callee-writes-list-arg'
    return 'plain'
