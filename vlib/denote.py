"""
Denotation of fpy2 / Python numbers into  Q ∪ {+0, -0, +inf, -inf, nan}  and structural
same-value comparison.  Uses only the public fields s, c, exp, isinf, isnan of fpy2 numbers
(not as_rational / comparison operators, which are themselves under test).
"""

import math
from fractions import Fraction

from fpy2.number import Float, RealFloat

NAN = 'nan'
PINF = '+inf'
NINF = '-inf'
PZERO = '+0'
NZERO = '-0'

SPECIALS = (NAN, PINF, NINF, PZERO, NZERO)


def pow2(k: int) -> Fraction:
    return Fraction(1 << k) if k >= 0 else Fraction(1, 1 << -k)


def den_real(s: bool, c: int, exp: int):
    if c == 0:
        return NZERO if s else PZERO
    v = Fraction(c) * pow2(exp)
    return -v if s else v


def den(v):
    """Denotation of a scalar."""
    if isinstance(v, bool):
        return v
    if isinstance(v, Float):
        if v.isnan:
            return NAN
        if v.isinf:
            return NINF if v.s else PINF
        return den_real(v.s, v.c, v.exp)
    if isinstance(v, RealFloat):
        return den_real(v.s, v.c, v.exp)
    if isinstance(v, int):
        return PZERO if v == 0 else Fraction(v)
    if isinstance(v, float):
        if math.isnan(v):
            return NAN
        if math.isinf(v):
            return PINF if v > 0 else NINF
        if v == 0.0:
            return NZERO if math.copysign(1.0, v) < 0 else PZERO
        return Fraction(v)
    if isinstance(v, Fraction):
        return PZERO if v == 0 else v
    if isinstance(v, str) and v in SPECIALS:
        return v
    raise TypeError(f'den: unsupported {type(v)}: {v!r}')


def deep_den(v):
    """Denotation through lists / tuples (lists -> ('L', ...), tuples -> ('T', ...))."""
    if isinstance(v, list):
        return ('L',) + tuple(deep_den(x) for x in v)
    if isinstance(v, tuple):
        return ('T',) + tuple(deep_den(x) for x in v)
    try:
        return den(v)
    except TypeError:
        return ('?', repr(v))


def same(a, b) -> bool:
    return deep_den(a) == deep_den(b)


def num(d) -> Fraction:
    """Numeric value of a denotation of a finite number (zeros -> 0)."""
    if d in (PZERO, NZERO):
        return Fraction(0)
    if isinstance(d, Fraction):
        return d
    raise ValueError(d)


def is_finite(d):
    return isinstance(d, Fraction) or d in (PZERO, NZERO)


def sign_of(d) -> bool:
    """True when negative (including -0, -inf)."""
    if d in (NZERO, NINF):
        return True
    if isinstance(d, Fraction):
        return d < 0
    return False


def to_float_obj(d, ctx=None):
    """Builds an fpy2 Float with the given denotation (finite dyadic, zero, inf, nan)."""
    if d == NAN:
        return Float(isnan=True)
    if d == PINF:
        return Float(isinf=True)
    if d == NINF:
        return Float(s=True, isinf=True)
    if d == PZERO:
        return Float(c=0, exp=0)
    if d == NZERO:
        return Float(s=True, c=0, exp=0)
    s = d < 0
    a = -d if s else d
    den_ = a.denominator
    if den_ & (den_ - 1):
        raise ValueError(f'not dyadic: {d}')
    exp = -(den_.bit_length() - 1)
    return Float(s=s, c=a.numerator, exp=exp)


def show(d):
    if isinstance(d, Fraction):
        return f'{d.numerator}/{d.denominator}' if d.denominator != 1 else str(d.numerator)
    return repr(d) if not isinstance(d, str) else d
