"""
Exact reference for the arithmetic operations of fpy2 (C02; reused by C04's reference evaluator and C20).

Operands and results are *denotations* (vlib.denote):  Fraction (finite non-zero) | '+0' | '-0' |
'+inf' | '-inf' | 'nan'.  The reference computes the mathematically exact result of the operation
on the operands' real values with Python `Fraction`/integer arithmetic only, and the special-value
cases from the standards:

  * IEEE 754-2019  §5.3.1 (remainder), §5.4.1 (add, sub, mul, div, fma, sqrt), §5.5.1 (neg, abs,
    copySign), §5.9 (roundToIntegral*), §6.1 (infinity arithmetic), §6.2 (NaN propagation), §6.3
    (sign bit: products/quotients xor, sums of zeros, exact cancellation, sqrt(-0)), §7.2 (invalid),
    §7.3 (divideByZero), §9.2/9.2.1 (pow, rootn, hypot special values);
  * ISO C (C17 7.12.10.1/F.10.7.1 fmod, 7.12.10.2/F.10.7.2 remainder, 7.12.12.1 fdim,
    7.12.9 ceil/floor/trunc/round/nearbyint + F.10.6);
  * Python's `%` for `mod` (x - floor(x/y)*y; the doc of fpy2.ops.mod names this definition).

Nothing here is derived from fpy2's engines.

Public API
----------
OPS                      : dict name -> OpInfo(name, arity, fn, fpy)    (fpy = function name in fpy2.ops)
ARITY                    : dict name -> arity
ref(op, args, rm='RNE')  : -> Exact | None      exact result(s) of `op` on denotations `args`
                           (None: no exact rational/algebraic reference, e.g. pow with a non-integer exponent)
Exact                    : .values  tuple of permitted exact results, each a denotation or a `Root`
                           .invalid / .divzero   IEEE exceptions of the *operation* (before rounding)
                           .kind    'finite' | 'zero' | 'inf' | 'nan-prop' | 'invalid' | 'divzero' | 'open'
                           .open    None or the reason why more than one value is permitted
Root(neg, q, k)          : the irrational real  (-1)^neg * q^(1/k)  with exact comparison to rationals
root(q, k)               : exact k-th root of a rational >= 0 as Fraction when rational, else Root
surrogate(v, p, nmin)    : a Fraction that every rounding onto the grid (p, nmin) treats exactly like Root v
round_value(m, v, n=None): vlib.oracle_round.Outcome of rounding a denotation or Root once under Model m
round_exact(m, ex)       : Outcome of rounding an Exact record once under m (union over ex.values);
                           .op_invalid/.op_divzero/.exact/.open attached
expect_op(m, op, args)   : = round_exact(m, ref(op, args, m.rm))   (nearbyint: single rounding at n = -1)
nearbyint(x, rm)         : the integer nearest x in the sense of mode rm (denotation)
selftest()               : compares against CPython floats (binary64, RNE) where those are IEEE-exact
"""

from __future__ import annotations

from dataclasses import dataclass
from fractions import Fraction

from .denote import NAN, NINF, NZERO, PINF, PZERO, is_finite, num, pow2, sign_of
from .oracle_round import Model, Outcome, expect, floor_log2, round_real

__all__ = ['OPS', 'ARITY', 'ref', 'Exact', 'Root', 'root', 'surrogate', 'round_value', 'round_exact', 'expect_op',
           'nearbyint', 'selftest']

ZERO = Fraction(0)


# ---------------------------------------------------------------------------
# helpers on denotations

def _isnan(d):
    return isinstance(d, str) and d == NAN


def _isinf(d):
    return isinstance(d, str) and d in (PINF, NINF)


def _iszero(d):
    return isinstance(d, str) and d in (PZERO, NZERO)


def _zero(neg: bool):
    return NZERO if neg else PZERO


def _inf(neg: bool):
    return NINF if neg else PINF


def _fin(q: Fraction, neg_if_zero: bool = False):
    """Denotation of an exact finite value; a zero takes the given sign."""
    return q if q != 0 else _zero(neg_if_zero)


def _neg(d):
    """Sign flip of any denotation (IEEE negate)."""
    if _isnan(d):
        return NAN
    if _isinf(d):
        return _inf(d == PINF)
    if _iszero(d):
        return _zero(d == PZERO)
    return -d


def _floor(q: Fraction) -> int:
    return q.numerator // q.denominator


def _trunc(q: Fraction) -> int:
    return -_floor(-q) if q < 0 else _floor(q)


def _is_int(d) -> bool:
    return _iszero(d) or (isinstance(d, Fraction) and d.denominator == 1)


def _is_odd_int(d) -> bool:
    return isinstance(d, Fraction) and d.denominator == 1 and d.numerator % 2 == 1


# ---------------------------------------------------------------------------
# result record

@dataclass(frozen=True)
class Exact:
    values: tuple            # permitted exact results (denotations or Root); usually one
    invalid: bool = False    # IEEE invalid-operation (NaN produced from non-NaN operands)
    divzero: bool = False    # IEEE divideByZero (exact infinity from finite operands)
    kind: str = 'finite'
    open: str | None = None  # why several values are permitted

    @property
    def value(self):
        assert len(self.values) == 1, self
        return self.values[0]


def _nanprop():
    return Exact((NAN,), kind='nan-prop')


def _invalid():
    return Exact((NAN,), invalid=True, kind='invalid')


def _one(v, **kw):
    if isinstance(v, Root):
        kind = 'finite'
    elif _isnan(v):
        kind = 'nan-prop'
    elif _isinf(v):
        kind = 'inf'
    elif _iszero(v):
        kind = 'zero'
    else:
        kind = 'finite'
    kw.setdefault('kind', kind)
    return Exact((v,), **kw)


def _cancel_zero(rm):
    """IEEE 754 §6.3: an exactly-zero sum of operands of opposite sign is +0 in every rounding
    direction except roundTowardNegative, where it is -0.  The property statement leaves the RTN
    case open, so both zeros are permitted there."""
    if rm == 'RTN':
        return Exact((NZERO, PZERO), kind='open', open='exact cancellation under RTN')
    return Exact((PZERO,), kind='zero')


# ---------------------------------------------------------------------------
# algebraic numbers  (-1)^neg * q^(1/k),  irrational

def iroot(n: int, k: int) -> int:
    """floor(n ** (1/k)) for integers n >= 0, k >= 1 (integer Newton iteration)."""
    assert n >= 0 and k >= 1
    if n < 2 or k == 1:
        return n
    x = 1 << -(-n.bit_length() // k)        # >= true root
    while True:
        y = ((k - 1) * x + n // x ** (k - 1)) // k
        if y >= x:
            break
        x = y
    while x ** k > n:
        x -= 1
    while (x + 1) ** k <= n:
        x += 1
    return x


class Root:
    """The real number (-1)^neg * q^(1/k) for a positive rational q that is not a perfect k-th
    power (so the number is irrational and never sits on a rounding breakpoint)."""

    __slots__ = ('neg', 'q', 'k')

    def __init__(self, neg: bool, q: Fraction, k: int):
        assert q > 0 and k >= 2
        self.neg, self.q, self.k = bool(neg), Fraction(q), k

    def __repr__(self):
        return f'{"-" if self.neg else ""}root{self.k}({self.q.numerator}/{self.q.denominator})'

    def __eq__(self, o):
        return isinstance(o, Root) and (self.neg, self.q, self.k) == (o.neg, o.q, o.k)

    def __hash__(self):
        return hash(('Root', self.neg, self.q, self.k))

    def __neg__(self):
        return Root(not self.neg, self.q, self.k)

    def __abs__(self):
        return Root(False, self.q, self.k)

    def cmp(self, r) -> int:
        """sign(self - r) for a rational r; never 0 (self is irrational)."""
        r = Fraction(r)
        if self.neg:
            return -Root(False, self.q, self.k).cmp(-r)
        if r <= 0:
            return 1
        c = r ** self.k
        assert c != self.q
        return 1 if self.q > c else -1

    def __lt__(self, r):
        return self.cmp(r) < 0

    def __gt__(self, r):
        return self.cmp(r) > 0

    def floor_log2(self) -> int:
        """floor(log2 |self|):  floor(log2(q)/k) = floor(floor(log2 q)/k)."""
        return floor_log2(self.q) // self.k

    def enclose(self, ulp: Fraction):
        """j with  j*ulp < |self| < (j+1)*ulp, and whether |self| is above the midpoint."""
        t = self.q / ulp ** self.k
        j = iroot(_floor(t), self.k)
        assert Fraction(j) ** self.k < t < Fraction(j + 1) ** self.k
        mid = (Fraction(2 * j + 1) / 2) ** self.k
        assert mid != t
        return j, t > mid

    def approx(self, bits: int = 80) -> Fraction:
        """A rational within 2^-bits relative of self (reporting only)."""
        e = self.floor_log2()
        ulp = pow2(e - bits)
        j, _ = self.enclose(ulp)
        v = j * ulp
        return -v if self.neg else v


def root(q: Fraction, k: int):
    """q^(1/k) for a rational q >= 0: Fraction when rational, Root otherwise."""
    q = Fraction(q)
    assert q >= 0
    if q == 0:
        return ZERO
    a, b = q.numerator, q.denominator
    ra, rb = iroot(a, k), iroot(b, k)
    if ra ** k == a and rb ** k == b:
        return Fraction(ra, rb)
    return Root(False, q, k)


def surrogate(v: Root, p: int | None, nmin: int | None) -> Fraction:
    """A rational strictly inside the same open half-gap of the grid (p, nmin) as the irrational v:
    same neighbours, same side of the midpoint, not representable -- hence rounded identically by
    every mode (and flagged inexact)."""
    e = v.floor_log2()
    if p is None:
        assert nmin is not None
        ns = nmin
    else:
        ns = e - p if nmin is None else max(nmin, e - p)
    ulp = pow2(ns + 1)
    j, upper = v.enclose(ulp)
    s = (Fraction(4 * j + 3, 4) if upper else Fraction(4 * j + 1, 4)) * ulp
    # sanity: the surrogate sits on the same grid as v
    if p is not None and j >= 1:
        assert floor_log2(s) == e
    assert v.cmp(j * ulp) > 0 if not v.neg else True
    return -s if v.neg else s


# ---------------------------------------------------------------------------
# the operations

def add(x, y, rm='RNE') -> Exact:
    if _isnan(x) or _isnan(y):
        return _nanprop()
    if _isinf(x) and _isinf(y):
        return _one(x) if x == y else _invalid()          # §7.2: magnitude subtraction of infinities
    if _isinf(x):
        return _one(x)
    if _isinf(y):
        return _one(y)
    if _iszero(x) and _iszero(y):
        if x == y:
            return _one(x)                                 # §6.3: like-signed zeros keep the sign
        return _cancel_zero(rm)
    if _iszero(x):
        return _one(y)
    if _iszero(y):
        return _one(x)
    s = x + y
    if s == 0:
        return _cancel_zero(rm)
    return _one(s)


def sub(x, y, rm='RNE') -> Exact:
    # §5.4.1: x - y = x + (-y), including all sign rules
    return add(x, _neg(y), rm)


def mul(x, y, rm='RNE') -> Exact:
    if _isnan(x) or _isnan(y):
        return _nanprop()
    neg = sign_of(x) != sign_of(y)                         # §6.3: sign of a product is the xor
    if _isinf(x) or _isinf(y):
        if _iszero(x) or _iszero(y):
            return _invalid()                              # §7.2: 0 x inf
        return _one(_inf(neg))
    if _iszero(x) or _iszero(y):
        return _one(_zero(neg))
    return _one(x * y)


def div(x, y, rm='RNE') -> Exact:
    if _isnan(x) or _isnan(y):
        return _nanprop()
    neg = sign_of(x) != sign_of(y)
    if _isinf(x):
        return _invalid() if _isinf(y) else _one(_inf(neg))
    if _isinf(y):
        return _one(_zero(neg))
    if _iszero(y):
        if _iszero(x):
            return _invalid()                              # §7.2: 0/0
        return _one(_inf(neg), divzero=True, kind='divzero')   # §7.3
    if _iszero(x):
        return _one(_zero(neg))
    return _one(x / y)


def fma(x, y, z, rm='RNE') -> Exact:
    """(x*y)+z with a single rounding (IEEE 754 §5.4.1 fusedMultiplyAdd)."""
    if _isnan(x) or _isnan(y) or _isnan(z):
        # fma(0, inf, NaN): NaN either way (whether invalid is signalled is implementation-defined)
        return _nanprop()
    pneg = sign_of(x) != sign_of(y)
    if _isinf(x) or _isinf(y):
        if _iszero(x) or _iszero(y):
            return _invalid()
        if _isinf(z) and sign_of(z) != pneg:
            return _invalid()
        return _one(_inf(pneg))
    if _isinf(z):
        return _one(z)
    if _iszero(x) or _iszero(y):
        pz = _zero(pneg)
        if _iszero(z):
            return _one(pz) if pz == z else _cancel_zero(rm)   # §6.3: sum-of-zeros rule
        return _one(z)
    p = x * y
    if _iszero(z):
        return _one(p)
    s = p + z
    if s == 0:
        return _cancel_zero(rm)
    return _one(s)


def neg(x, rm='RNE') -> Exact:
    return _one(_neg(x))


def fabs(x, rm='RNE') -> Exact:
    if _isnan(x):
        return _nanprop()
    if _isinf(x):
        return _one(PINF)
    if _iszero(x):
        return _one(PZERO)
    return _one(abs(x))


def copysign(x, y, rm='RNE') -> Exact:
    """|x| with the sign of y.  A NaN `y` carries a sign bit that denotations do not record:
    IEEE copySign would use it, so either sign is permitted; 'NaN propagates' of the statement could
    also be read as NaN -- all three are permitted (open)."""
    if _isnan(x):
        return _nanprop()
    mag = fabs(x).value
    if _isnan(y):
        return Exact((mag, _neg(mag), NAN), kind='open', open='copysign with NaN sign operand')
    return _one(_neg(mag) if sign_of(y) else mag)


def fdim(x, y, rm='RNE') -> Exact:
    """C 7.12.12.1: x - y if x > y, +0 if x <= y; NaN if either is NaN."""
    if _isnan(x) or _isnan(y):
        return _nanprop()
    if _le(x, y):
        return _one(PZERO)
    if _isinf(x) or _isinf(y):
        return _one(PINF)                                  # x > y: +inf - y  or  x - (-inf)
    return _one(num(x) - num(y))                           # > 0


def _key(d):
    """Ordering key of a non-NaN denotation (zeros compare equal)."""
    if d == PINF:
        return (1, ZERO)
    if d == NINF:
        return (-1, ZERO)
    return (0, num(d))


def _le(x, y):
    return _key(x) <= _key(y)


def mod(x, y, rm='RNE') -> Exact:
    """Python's modulus  x - floor(x/y)*y  (result has the sign of y or is zero).
    The sign of a zero result is not fixed by the statement: both zeros are permitted."""
    if _isnan(x) or _isnan(y):
        return _nanprop()
    if _isinf(x) or _iszero(y):
        return _invalid()
    zero_open = Exact((PZERO, NZERO), kind='open', open='sign of a zero mod result')
    if _isinf(y):
        if _iszero(x):
            return zero_open
        if sign_of(x) == sign_of(y):
            return _one(x)                                 # floor(x/y) = 0
        # floor(x/y) = -1 for every finite y of that sign: x + y -> y as y -> inf (CPython: fmod + y)
        return Exact((y, NAN), kind='open', open='mod(x, inf) with opposite signs')
    if _iszero(x):
        return zero_open
    r = x - _floor(x / y) * y
    if r == 0:
        return zero_open
    return _one(r)


def fmod(x, y, rm='RNE') -> Exact:
    """C fmod: x - trunc(x/y)*y, sign of x (F.10.7.1)."""
    if _isnan(x) or _isnan(y):
        return _nanprop()
    if _isinf(x) or _iszero(y):
        return _invalid()
    if _isinf(y) or _iszero(x):
        return _one(x)
    r = x - _trunc(x / y) * y
    return _one(_fin(r, x < 0))


def remainder(x, y, rm='RNE') -> Exact:
    """IEEE 754 §5.3.1: x - y*n, n the integer nearest x/y (ties to even); a zero result has the sign of x."""
    if _isnan(x) or _isnan(y):
        return _nanprop()
    if _isinf(x) or _iszero(y):
        return _invalid()
    if _isinf(y) or _iszero(x):
        return _one(x)
    t = x / y
    n = _floor(t)
    f = t - n
    if f > Fraction(1, 2) or (f == Fraction(1, 2) and n % 2 == 1):
        n += 1
    r = x - n * y
    return _one(_fin(r, x < 0))


def pow(x, y, rm='RNE') -> Exact | None:   # noqa: A001
    """IEEE 754 §9.2.1 pow.  Finite results only for an integer exponent (None otherwise)."""
    if _iszero(y):
        return _one(Fraction(1))                           # pow(x, +-0) = 1 for any x, even NaN
    if x == 1:
        return _one(Fraction(1))                           # pow(+1, y) = 1 for any y, even NaN
    if _isnan(x) or _isnan(y):
        return _nanprop()
    if _isinf(y):
        if x == -1:
            return _one(Fraction(1))
        a = PINF if _isinf(x) else (PZERO if _iszero(x) else abs(x))
        big = a == PINF or (isinstance(a, Fraction) and a > 1)
        if y == PINF:
            return _one(PINF if big else PZERO)
        if _iszero(x):
            return _one(PINF)                              # pow(+-0, -inf) = +inf (no exception)
        return _one(PZERO if big else PINF)
    odd = _is_odd_int(y)
    ypos = y > 0
    if _iszero(x):
        sneg = x == NZERO and odd
        if ypos:
            return _one(_zero(sneg))
        return _one(_inf(sneg), divzero=True, kind='divzero')
    if _isinf(x):
        sneg = x == NINF and odd
        return _one(_inf(sneg) if ypos else _zero(sneg))
    if y.denominator != 1:
        if x < 0:
            return _invalid()
        return None                                        # irrational/algebraic in general: not covered here
    n = y.numerator
    return _one(x ** n if n > 0 else 1 / x ** (-n))


def _rint(fn):
    def op(x, rm='RNE') -> Exact:
        # §5.9 roundToIntegral*: specials pass through; a zero result takes the sign of the operand
        if _isnan(x):
            return _nanprop()
        if _isinf(x) or _iszero(x):
            return _one(x)
        return _one(_fin(Fraction(fn(x)), x < 0))
    return op


def _ceil_i(q):
    return -_floor(-q)


def _round_half_away(q):
    a = abs(q)
    k = _floor(a + Fraction(1, 2))
    return -k if q < 0 else k


ceil = _rint(_ceil_i)
floor = _rint(_floor)
trunc = _rint(_trunc)
roundint = _rint(_round_half_away)      # C round(): nearest, ties away from zero


def nearbyint(x, rm='RNE') -> Exact:
    """Round to an integer in the direction `rm` (C nearbyint / roundToIntegralExact under the
    current mode).  NOTE: under a context that cannot hold every integer, fpy2 documents this op as
    a *single* rounding onto the integers representable in the context, which is
    vlib.oracle_round.expect(m, x, n=-1); expect_op does that."""
    if _isnan(x):
        return _nanprop()
    if _isinf(x) or _iszero(x):
        return _one(x)
    r, ng, _ = round_real(x, None, -1, rm)
    return _one(_fin(r, ng))


def sqrt(x, rm='RNE') -> Exact:
    if _isnan(x):
        return _nanprop()
    if _iszero(x):
        return _one(x)                                     # §6.3: sqrt(-0) = -0
    if x == PINF:
        return _one(PINF)
    if x == NINF or x < 0:
        return _invalid()
    return _one(root(x, 2))


def cbrt(x, rm='RNE') -> Exact:
    # §9.2.1 rootn(x, 3): rootn(+-0, n) = +-0 and rootn(+-inf, n) = +-inf for odd n > 0
    if _isnan(x):
        return _nanprop()
    if _iszero(x) or _isinf(x):
        return _one(x)
    r = root(abs(x), 3)
    return _one(-r if x < 0 else r)


def hypot(x, y, rm='RNE') -> Exact:
    # §9.2.1: hypot(+-inf, qNaN) = +inf; hypot(+-0, +-0) = +0
    if _isinf(x) or _isinf(y):
        return _one(PINF)
    if _isnan(x) or _isnan(y):
        return _nanprop()
    a, b = num(x), num(y)
    s = a * a + b * b
    if s == 0:
        return _one(PZERO)
    return _one(root(s, 2))


@dataclass(frozen=True)
class OpInfo:
    name: str
    arity: int
    fn: object
    fpy: str          # attribute of fpy2.ops
    family: str       # 'arith' | 'sign' | 'rem' | 'pow' | 'rint' | 'root'


OPS = {o.name: o for o in [
    OpInfo('add', 2, add, 'add', 'arith'), OpInfo('sub', 2, sub, 'sub', 'arith'),
    OpInfo('mul', 2, mul, 'mul', 'arith'), OpInfo('div', 2, div, 'div', 'arith'),
    OpInfo('fma', 3, fma, 'fma', 'arith'),
    OpInfo('neg', 1, neg, 'neg', 'sign'), OpInfo('abs', 1, fabs, 'fabs', 'sign'),
    OpInfo('copysign', 2, copysign, 'copysign', 'sign'), OpInfo('fdim', 2, fdim, 'fdim', 'arith'),
    OpInfo('mod', 2, mod, 'mod', 'rem'), OpInfo('fmod', 2, fmod, 'fmod', 'rem'),
    OpInfo('remainder', 2, remainder, 'remainder', 'rem'),
    OpInfo('pow', 2, pow, 'pow', 'pow'),
    OpInfo('ceil', 1, ceil, 'ceil', 'rint'), OpInfo('floor', 1, floor, 'floor', 'rint'),
    OpInfo('trunc', 1, trunc, 'trunc', 'rint'), OpInfo('roundint', 1, roundint, 'roundint', 'rint'),
    OpInfo('nearbyint', 1, nearbyint, 'nearbyint', 'rint'),
    OpInfo('sqrt', 1, sqrt, 'sqrt', 'root'), OpInfo('cbrt', 1, cbrt, 'cbrt', 'root'),
    OpInfo('hypot', 2, hypot, 'hypot', 'root'),
]}
ARITY = {k: v.arity for k, v in OPS.items()}


def ref(op: str, args, rm: str = 'RNE') -> Exact | None:
    """Exact result(s) of `op` on the denotations `args`.  `rm` only matters for the sign of an
    exact-cancellation zero and for nearbyint."""
    info = OPS[op]
    if len(args) != info.arity:
        raise TypeError(f'{op} takes {info.arity} operand(s)')
    return info.fn(*args, rm=rm)


# ---------------------------------------------------------------------------
# rounding an exact result once under a context mirror

def round_value(m: Model, v, n: int | None = None) -> Outcome:
    """Outcome of rounding the exact value v (denotation or Root) once under m."""
    if isinstance(v, Root):
        if m.kind == 'real':
            # an irrational has no exact representation at all
            return Outcome(values=set(), raises={'NotImplementedError', 'ValueError'}, why='irrational under real')
        if m.kind == 'exp':
            p, nmin = 1, None
        else:
            p, nmin = m.p, m.nmin
        if n is not None:
            nmin = n if nmin is None else max(n, nmin)
        return expect(m, surrogate(v, p, nmin), n=n)
    return expect(m, v, n=n)


def round_exact(m: Model, ex: Exact) -> Outcome:
    """Outcome of rounding the exact result record `ex` once under m (union over permitted values).
    Extra attributes on the Outcome: .exact (the Exact record), .op_invalid, .op_divzero, .open."""
    outs = [round_value(m, v) for v in ex.values]
    o = outs[0]
    if len(outs) > 1:
        vals, raises = set(), set()
        for t in outs:
            vals |= t.values
            raises |= t.raises
        same_flags = all((t.inexact, t.overflow) == (o.inexact, o.overflow) for t in outs)
        o = Outcome(values=vals, raises=raises, inexact=o.inexact if same_flags else None,
                    overflow=o.overflow if same_flags else None, why=o.why)
    o.exact, o.op_invalid, o.op_divzero, o.open = ex, ex.invalid, ex.divzero, ex.open
    return o


def expect_op(m: Model, op: str, args) -> Outcome | None:
    """Permitted outcome of `op(args)` evaluated under the context mirrored by m: the exact result
    rounded once.  Returns None when there is no exact reference (see `ref`)."""
    if op == 'nearbyint':
        # single rounding onto the integers representable under m (fpy2 documents nearbyint as
        # "rounds x to a representable integer according to the rounding mode of this context")
        ex = nearbyint(args[0], m.rm if m.kind != 'real' else 'RNE')
        if m.kind == 'real':
            o = Outcome(values=set(), raises={'RuntimeError', 'NotImplementedError', 'ValueError'}, why='nearbyint under real')
        else:
            o = expect(m, args[0], n=-1)
        o.exact, o.op_invalid, o.op_divzero, o.open = ex, False, False, None
        return o
    ex = ref(op, args, m.rm if m.kind != 'real' else 'RNE')
    if ex is None:
        return None
    return round_exact(m, ex)


# ---------------------------------------------------------------------------
# self-test against CPython's binary64 arithmetic (IEEE-exact for + - * / sqrt fmod remainder)

def _d(x: float):
    from .denote import den
    return den(x)


def selftest():
    import math
    import struct

    from . import formats as F

    _, m64 = F.mk_ieee(11, 64)
    assert m64.p == 53 and m64.nmin == -1075 and m64.pos_max == Fraction(float.fromhex('0x1.fffffffffffffp+1023')), m64

    def same(o: Outcome, want: float, what):
        w = _d(want)
        assert o is not None and o.values == {w}, (what, o, w)

    # deterministic operand pool: specials, subnormals, near-overflow, ordinary, near-ties
    pool = [0.0, -0.0, math.inf, -math.inf, math.nan, 1.0, -1.0, 0.5, 1.5, 3.0, -7.0, 10.0, 0.1, -0.3, 1e-320, 5e-324,
            -5e-324, 2.2250738585072014e-308, 1.7976931348623157e308, -1.7976931348623157e308, 1e308, 1e-170, 1e170,
            1 + 2 ** -52, 1 - 2 ** -53, 2.0 ** 52 + 1, 2.0 ** 53, 9007199254740993.0, 4.5, 2.5, -2.5, 6.0, 1e16, 123456789.125]
    st = 0x9E3779B97F4A7C15
    for _ in range(60):
        st = (st * 6364136223846793005 + 1442695040888963407) % (1 << 64)
        e = (st >> 52) % 120 - 60
        mant = 1 + ((st >> 3) & ((1 << 30) - 1)) / (1 << 30)
        pool.append(math.ldexp(mant, e) * (-1 if st & 1 else 1))

    import operator
    for a in pool:
        da = _d(a)
        same(expect_op(m64, 'neg', (da,)), -a, ('neg', a))
        same(expect_op(m64, 'abs', (da,)), abs(a), ('abs', a))
        if a >= 0 or a != a:
            same(expect_op(m64, 'sqrt', (da,)), math.sqrt(a), ('sqrt', a))
        elif a == 0:
            same(expect_op(m64, 'sqrt', (da,)), a, ('sqrt', a))
        else:
            assert ref('sqrt', (da,)).invalid
        if math.isfinite(a):
            for name, fn in (('ceil', math.ceil), ('floor', math.floor), ('trunc', math.trunc)):
                o = expect_op(m64, name, (da,))
                assert {num(v) for v in o.values} == {Fraction(fn(a))}, (name, a, o)
            o = expect_op(m64, 'nearbyint', (da,))
            assert {num(v) for v in o.values} == {Fraction(round(a))}, ('nearbyint', a, o)   # Python round(): half-even
            r = ref('roundint', (da,)).value
            want = math.floor(abs(a) + 0.5) if abs(a) < 2 ** 52 else abs(a)
            assert num(r) == Fraction(math.copysign(want, a)), ('roundint', a, r)
            if a != 0 and _iszero(r):
                assert (r == NZERO) == (a < 0)
        for b in pool:
            db = _d(b)
            for name, fn in (('add', operator.add), ('sub', operator.sub), ('mul', operator.mul)):
                same(expect_op(m64, name, (da, db)), fn(a, b), (name, a, b))
            if b != 0:
                same(expect_op(m64, 'div', (da, db)), a / b, ('div', a, b))
            else:
                ex = ref('div', (da, db))
                if a != a:
                    assert ex.kind == 'nan-prop'
                elif a == 0:
                    assert ex.invalid
                elif math.isinf(a):
                    assert ex.value == _inf((a < 0) != (math.copysign(1, b) < 0)) and not ex.divzero
                else:
                    assert ex.divzero and ex.value == _inf((a < 0) != (math.copysign(1, b) < 0))
            same(expect_op(m64, 'copysign', (da, db)), math.copysign(a, b), ('copysign', a, b)) if b == b else None
            for name, fn in (('fmod', math.fmod), ('remainder', math.remainder)):
                try:
                    want = fn(a, b)
                except ValueError:
                    assert ref(name, (da, db)).invalid, (name, a, b)
                    continue
                same(expect_op(m64, name, (da, db)), want, (name, a, b))
            # Python's % on floats (zero results: sign of b; ours leaves it open)
            if b != 0 and math.isfinite(a) and a == a and b == b:
                want = a % b
                o = expect_op(m64, 'mod', (da, db))
                if want == 0:
                    assert o.values == {PZERO, NZERO}, ('mod', a, b, o)
                elif math.isinf(b) and math.isinf(want):
                    assert _d(want) in o.values
                else:
                    # CPython computes fmod then adds b: a second rounding in the mixed-sign case; compare exactly when signs agree
                    if (a < 0) == (b < 0):
                        same(o, want, ('mod', a, b))
            # hypot: CPython's is not guaranteed correctly rounded in general; check specials and exact triples
            if math.isinf(a) or math.isinf(b):
                same(expect_op(m64, 'hypot', (da, db)), math.hypot(a, b), ('hypot', a, b))
            # fdim
            if a == a and b == b:
                want = a - b if a > b else 0.0
                same(expect_op(m64, 'fdim', (da, db)), want, ('fdim', a, b))
    same(expect_op(m64, 'hypot', (_d(3.0), _d(-4.0))), 5.0, 'hypot 3 4')
    same(expect_op(m64, 'hypot', (_d(-0.0), _d(-0.0))), 0.0, 'hypot -0 -0')
    same(expect_op(m64, 'hypot', (_d(1.0), _d(1.0))), math.sqrt(2.0), 'hypot 1 1')
    same(expect_op(m64, 'cbrt', (_d(-27.0),)), -3.0, 'cbrt')
    same(expect_op(m64, 'cbrt', (_d(-0.0),)), -0.0, 'cbrt -0')
    same(expect_op(m64, 'cbrt', (_d(0.001),)), 0.1, 'cbrt 0.001')     # 0.1 is the double nearest cbrt(double(0.001))
    # fma: exact sum of the exact product, one rounding -- the classic double-rounding witness
    a, b = 1 + 2.0 ** -30, 1 - 2.0 ** -30
    same(expect_op(m64, 'fma', (_d(a), _d(b), _d(-1.0))), -(2.0 ** -60), 'fma')
    assert ref('fma', (PINF, PZERO, Fraction(1))).invalid and ref('fma', (PINF, Fraction(1), NINF)).invalid
    assert ref('fma', (Fraction(2), Fraction(3), Fraction(-6))).value == PZERO
    assert set(ref('fma', (Fraction(2), Fraction(3), Fraction(-6)), 'RTN').values) == {PZERO, NZERO}
    assert ref('fma', (NZERO, Fraction(3), NZERO)).value == NZERO and ref('fma', (NZERO, Fraction(3), PZERO)).value == PZERO
    # pow: CPython follows C99 F.10.4.4 (same table as IEEE 754 §9.2.1) except that it raises for pole cases
    for a in pool:
        for y in (0.0, -0.0, 1.0, 2.0, 3.0, -1.0, -2.0, -3.0, math.inf, -math.inf, math.nan, 5.0):
            try:
                want = math.pow(a, y)
            except (ValueError, OverflowError, ZeroDivisionError):
                ex = ref('pow', (_d(a), _d(y)))
                assert ex is None or ex.divzero or ex.invalid or isinstance(ex.value, Fraction), (a, y, ex)
                continue
            o = expect_op(m64, 'pow', (_d(a), _d(y)))
            if math.isfinite(want) and want != 0 and (abs(y) >= 2 or y == -1.0) and math.isfinite(a):
                # libm pow is only faithful; require agreement within one ulp
                got = next(iter(o.values))
                if isinstance(got, Fraction):
                    assert abs(got - Fraction(want)) <= max(abs(Fraction(want)) * pow2(-52), pow2(-1074)), (a, y, got, want)
                continue
            same(o, want, ('pow', a, y))
    # algebraic rounding: exhaustive comparison with an independent high-precision integer method
    _, m5 = F.mk_mps(5, -3)
    for k in (2, 3):
        for a in range(1, 400):
            q = Fraction(a, 16)
            r = root(q, k)
            for rm in ('RNE', 'RTP', 'RTN', 'RTZ', 'RAZ', 'RNA', 'RTO', 'RTE'):
                m5.rm = rm
                o = round_value(m5, r)
                # brute force: the k-th root to 200 fractional bits, sticky in the last bit, rounded by the rational oracle
                big = iroot((q.numerator << (200 * k)) // q.denominator, k)
                approx = Fraction(2 * big + (0 if big ** k * q.denominator == q.numerator << (200 * k) else 1), 1 << 201)
                want = expect(m5, approx)
                assert o.values == want.values and o.inexact == want.inexact, (k, q, rm, o, want)
    assert Root(False, Fraction(2), 2).cmp(Fraction(3, 2)) < 0 < Root(False, Fraction(2), 2).cmp(Fraction(7, 5))
    assert Root(True, Fraction(2), 2).cmp(Fraction(-3, 2)) > 0 > Root(True, Fraction(2), 2).cmp(Fraction(-7, 5))
    assert iroot(26, 3) == 2 and iroot(27, 3) == 3 and iroot(10 ** 40, 2) == 10 ** 20 and iroot((10 ** 20 + 1) ** 2 - 1, 2) == 10 ** 20
