"""
C14 oracle: membership of a denotation (vlib.denote) in a format bound of fpy2's format inference.

Written from the *field documentation* only:

  AbstractFormat(prec, exp, pos_bound, neg_bound, has_pos_inf, has_neg_inf, has_nan, has_neg_zero)
      prec  maximum precision            -> the significand of a finite non-zero member has <= prec bits
      exp   minimum unnormalized exponent-> a finite member is an integer multiple of 2**exp
      pos_bound / neg_bound              -> neg_bound <= member <= pos_bound (float inf = unbounded)
      has_*                              -> +inf, -inf, NaN, -0.0 are members iff the flag says so
      "every format represents a +0.0"   -> +0 is always a member
  SetFormat(values)   members are exactly the listed values: Fraction(0) is +0, NEG_ZERO is -0,
                      Special.POS_INF / NEG_INF / NAN the specials
  concrete Format     mirrored as vlib.oracle_round.Model from the *constructor parameters* of the
                      format object (never `representable_in`) and decided by oracle_round.member
  TupleFormat / ListFormat   structural; None = no numeric format (booleans, contexts)

Nothing here calls into fpy2.analysis.
"""

from __future__ import annotations

from fractions import Fraction

from fpy2.number import RealFloat

from . import refdec
from .denote import NAN, NINF, NZERO, PINF, PZERO, den, pow2
from .oracle_round import Model, floor_log2, member

INF = float('inf')


# ---------------------------------------------------------------------------
# small helpers on rationals

def dyadic(q: Fraction) -> bool:
    d = q.denominator
    return d & (d - 1) == 0


def odd_decomp(q: Fraction):
    """q != 0 dyadic  ->  (c, e) with |q| = c * 2**e, c odd."""
    a = abs(q)
    n, d = a.numerator, a.denominator
    e = -(d.bit_length() - 1)
    tz = (n & -n).bit_length() - 1
    return n >> tz, e + tz


_BV_CACHE: dict = {}


def bound_value(b):
    """Bound field (RealFloat or python float +-inf) -> Fraction or +-INF."""
    if isinstance(b, float):
        return b
    key = (b.s, b.c, b.exp)
    v = _BV_CACHE.get(key)
    if v is None:
        d = den(b)
        v = Fraction(0) if d in (PZERO, NZERO) else d
        if len(_BV_CACHE) < 200000:
            _BV_CACHE[key] = v
    return v


# ---------------------------------------------------------------------------
# AbstractFormat

def af_fields(af):
    return (af.prec, af.exp, bound_value(af.pos_bound), bound_value(af.neg_bound),
            bool(af.has_pos_inf), bool(af.has_neg_inf), bool(af.has_nan), bool(af.has_neg_zero))


def finite_in(prec, exp, pos, neg, q: Fraction) -> bool:
    """Finite non-zero q against the four magnitude fields."""
    if not dyadic(q):
        return False
    if pos != pos or neg != neg:                # a NaN bound describes nothing
        return False
    if q > 0:
        if not isinstance(pos, float) and q > pos:
            return False
        if isinstance(pos, float) and pos < 0:
            return False
    else:
        if not isinstance(neg, float) and q < neg:
            return False
        if isinstance(neg, float) and neg > 0:
            return False
    c, e = odd_decomp(q)
    if not isinstance(exp, float) and e < exp:
        return False
    if isinstance(exp, float) and exp > 0:      # +inf exponent: no finite non-zero member
        return False
    if not isinstance(prec, float) and c.bit_length() > prec:
        return False
    return True


def af_member(af, d) -> bool:
    prec, exp, pos, neg, pinf, ninf, nan, nz = af_fields(af)
    if d == NAN:
        return nan
    if d == PINF:
        return pinf
    if d == NINF:
        return ninf
    if d == PZERO:
        return True
    if d == NZERO:
        return nz
    return finite_in(prec, exp, pos, neg, d)


def af_finite_members(af, cap=4096):
    """All finite non-zero members (Fractions) of a bounded AbstractFormat with finite exp, else None."""
    prec, exp, pos, neg, *_ = af_fields(af)
    if isinstance(exp, float) or isinstance(pos, float) or isinstance(neg, float):
        return None
    q = pow2(exp)

    def fl(a):
        t = a / q
        return t.numerator // t.denominator
    lo = -fl(-neg) if neg < 0 else 0              # ceil(neg / q)
    hi = fl(pos) if pos > 0 else 0
    if hi - lo > cap:
        return None
    out = []
    for k in range(lo, hi + 1):
        if k == 0:
            continue
        v = k * q
        if finite_in(prec, exp, pos, neg, v):
            out.append(v)
    return out


def af_members(af, cap=4096):
    """All members (denotations) or None when infinite / too many."""
    fin = af_finite_members(af, cap)
    if fin is None:
        return None
    out = [PZERO] + fin
    if af.has_neg_zero:
        out.append(NZERO)
    if af.has_pos_inf:
        out.append(PINF)
    if af.has_neg_inf:
        out.append(NINF)
    if af.has_nan:
        out.append(NAN)
    return out


# ---------------------------------------------------------------------------
# SetFormat

def set_values(sf):
    """Denotations listed by a SetFormat (non-dyadic rationals stay Fractions)."""
    out = set()
    for v in sf.values:
        if isinstance(v, Fraction):
            out.add(PZERO if v == 0 else v)
            continue
        name = getattr(v, 'name', None)
        if name == 'POS_INF':
            out.add(PINF)
        elif name == 'NEG_INF':
            out.add(NINF)
        elif name == 'NAN':
            out.add(NAN)
        elif type(v).__name__ == 'NegZero':
            out.add(NZERO)
        else:
            raise TypeError(f'unknown SetFormat value {v!r}')
    return out


# ---------------------------------------------------------------------------
# concrete Format -> Model

_NAN_KIND = {'IEEE_754': refdec.IEEE_754, 'MAX_VAL': refdec.MAX_VAL, 'NEG_ZERO': refdec.NEG_ZERO, 'NONE': refdec.NONE}

_MODEL_CACHE: dict = {}


def _num(b: RealFloat) -> Fraction:
    return bound_value(b)


def model_of(fmt):
    """oracle_round.Model mirroring a concrete fpy2 Format, or None when this module has no mirror."""
    key = (type(fmt).__name__, fmt)
    try:
        return _MODEL_CACHE[key]
    except KeyError:
        pass
    except TypeError:
        key = None
    m = _model_of(fmt)
    if key is not None:
        _MODEL_CACHE[key] = m
    return m


def _model_of(fmt):
    from . import formats
    name = type(fmt).__name__
    if name == 'RealFormat':
        return Model('real', has_nan=True, has_inf=True, label='REAL')
    if name == 'MPFloatFormat':
        return Model('mp', p=fmt.pmax, nmin=None, has_nan=fmt.enable_nan, has_inf=fmt.enable_inf)
    if name == 'MPSFloatFormat':
        return Model('mps', p=fmt.pmax, nmin=fmt.emin - fmt.pmax, has_nan=fmt.enable_nan, has_inf=fmt.enable_inf)
    if name == 'MPBFloatFormat':
        return Model('mpb', p=fmt.pmax, nmin=fmt.emin - fmt.pmax, pos_max=_num(fmt.pos_maxval),
                     neg_max=_num(fmt.neg_maxval), has_nan=fmt.enable_nan, has_inf=fmt.enable_inf)
    if name in ('EFloatFormat', 'IEEEFormat'):
        m, _ = formats.efloat_model(fmt.es, fmt.nbits, fmt.enable_inf, _NAN_KIND[fmt.nan_kind.name], fmt.eoffset,
                                    'RNE', 'OVERFLOW')
        return m
    if name == 'FixedFormat':
        # two's complement: nbits-bit integers times 2**scale
        ulp = pow2(fmt.scale)
        if fmt.signed:
            lo, hi = -(1 << (fmt.nbits - 1)), (1 << (fmt.nbits - 1)) - 1
        else:
            lo, hi = 0, (1 << fmt.nbits) - 1
        return Model('fixed', p=None, nmin=fmt.scale - 1, pos_max=hi * ulp, neg_max=lo * ulp,
                     has_nan=False, has_inf=False, has_neg_zero=False)
    if name == 'SMFixedFormat':
        ulp = pow2(fmt.scale)
        hi = (1 << (fmt.nbits - 1)) - 1
        return Model('smfixed', p=None, nmin=fmt.scale - 1, pos_max=hi * ulp, neg_max=-hi * ulp,
                     has_nan=False, has_inf=False, has_neg_zero=True)
    if name == 'MPFixedFormat':
        return Model('mpfixed', p=None, nmin=fmt.nmin, has_nan=fmt.enable_nan, has_inf=fmt.enable_inf,
                     has_neg_zero=fmt.enable_neg_zero)
    if name == 'MPBFixedFormat':
        return Model('mpbfixed', p=None, nmin=fmt.nmin, pos_max=_num(fmt.pos_maxval), neg_max=_num(fmt.neg_maxval),
                     has_nan=fmt.enable_nan, has_inf=fmt.enable_inf, has_neg_zero=fmt.enable_neg_zero)
    if name == 'ExpFormat':
        if fmt.nbits > 12:
            return None
        vals = [refdec.exp_decode(fmt.nbits, fmt.eoffset, b) for b in range(1 << fmt.nbits)]
        fin = [v for v in vals if isinstance(v, Fraction)]
        return Model('exp', p=1, nmin=floor_log2(min(fin)), p_emax=floor_log2(max(fin)),
                     has_nan=True, has_inf=False, has_neg_zero=False)
    return None


def model_fields(m: Model):
    """(prec, exp, pos, neg) in AbstractFormat units for boundary classification."""
    prec = INF if m.p is None else m.p
    exp = -INF if m.nmin is None else m.nmin + 1
    pos = INF if m.pos_max is None else m.pos_max
    neg = -INF if m.neg_max is None else m.neg_max
    return prec, exp, pos, neg


# ---------------------------------------------------------------------------
# generic bound membership

class NoMirror(Exception):
    pass


def kind_of(bound) -> str:
    if bound is None:
        return 'none'
    n = type(bound).__name__
    if n == 'SetFormat':
        return 'set'
    if n == 'TupleFormat':
        return 'tuple'
    if n == 'ListFormat':
        return 'list'
    if n == 'AbstractFormat':
        return 'abstract'
    return 'format'


def scalar_member(bound, d) -> bool:
    k = kind_of(bound)
    if k == 'set':
        return d in set_values(bound)
    if k == 'abstract':
        return af_member(bound, d)
    if k == 'format':
        m = model_of(bound)
        if m is None:
            raise NoMirror(type(bound).__name__)
        return member(m, d)
    raise TypeError(f'scalar_member: {bound!r}')


def is_scalar_den(dv) -> bool:
    return isinstance(dv, (Fraction, str)) and not isinstance(dv, bool)


def walk(bound, dv, path=()):
    """Yields (path, scalar_bound, scalar_denotation) leaves of a deep denotation against a bound;
    yields (path, 'shape', dv) for a structural mismatch.  None bounds and non-numeric leaves are skipped."""
    k = kind_of(bound)
    if isinstance(dv, tuple) and dv and dv[0] == 'L':
        if k == 'list':
            for i, x in enumerate(dv[1:]):
                yield from walk(bound.elt, x, path + (i,))
        elif k != 'none':
            yield (path, 'shape', dv)
        return
    if isinstance(dv, tuple) and dv and dv[0] == 'T':
        if k == 'tuple':
            if len(bound.elts) != len(dv) - 1:
                yield (path, 'shape', dv)
                return
            for i, (b, x) in enumerate(zip(bound.elts, dv[1:])):
                yield from walk(b, x, path + (i,))
        elif k != 'none':
            yield (path, 'shape', dv)
        return
    if isinstance(dv, tuple) or isinstance(dv, bool) or not is_scalar_den(dv):
        return          # foreign / bool / context: no numeric format to check
    if k == 'none':
        return
    if k in ('list', 'tuple'):
        yield (path, 'shape', dv)
        return
    yield (path, bound, dv)


def fields_of(bound):
    """(prec, exp, pos, neg) of a scalar bound, or None (SetFormat / no mirror)."""
    k = kind_of(bound)
    if k == 'abstract':
        return af_fields(bound)[:4]
    if k == 'format':
        m = model_of(bound)
        if m is None or m.kind in ('real', 'exp'):
            return None
        return model_fields(m)
    return None


def aspect(bound, d) -> str:
    """Which constraint a non-member violates (root-cause component of a bucket)."""
    if d == NAN:
        return 'nan'
    if d == PINF:
        return '+inf'
    if d == NINF:
        return '-inf'
    if d == NZERO:
        return 'neg-zero'
    if d == PZERO:
        return 'pos-zero'
    if kind_of(bound) == 'set':
        return 'not-in-set'
    if not dyadic(d):
        return 'non-dyadic'
    f = fields_of(bound)
    if f is None:
        return 'not-member'
    prec, exp, pos, neg = f
    if (d > 0 and d > pos) or (d < 0 and d < neg) or pos != pos or neg != neg:
        return 'outside-bounds'
    c, e = odd_decomp(d)
    if e < exp:
        return 'finer-than-exp'
    if c.bit_length() > prec:
        return 'precision'
    return 'not-member'


def boundary_classes(bound, d):
    """Boundary tags of a *member* d of a scalar bound (non-triviality read-out)."""
    out = []
    if d in (NAN, PINF, NINF):
        out.append('special')
        return out
    if d == NZERO:
        out.append('neg-zero')
        return out
    if d == PZERO:
        return out
    if kind_of(bound) == 'set':
        vals = [v for v in set_values(bound) if isinstance(v, Fraction)]
        if vals and d in (max(vals), min(vals)):
            out.append('max-bound')
        return out
    f = fields_of(bound)
    if f is None or not dyadic(d):
        return out
    prec, exp, pos, neg = f
    if d == pos or d == neg:
        out.append('max-bound')
    c, e = odd_decomp(d)
    if e == exp:
        out.append('min-exp')
    if c.bit_length() == prec:
        out.append('full-prec')
    return out


def tighter_than_real(bound) -> bool:
    k = kind_of(bound)
    if k in ('set', 'abstract'):
        return True
    if k == 'format':
        return type(bound).__name__ != 'RealFormat'
    if k == 'list':
        return tighter_than_real(bound.elt)
    if k == 'tuple':
        return any(tighter_than_real(b) for b in bound.elts)
    return False
