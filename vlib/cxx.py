"""
C++ harness for C11: translation-unit assembly, driver emission, g++ invocation, output parsing.

One translation unit per batch:

    headers (CppCompiler.headers()) once
    harness prelude (bit-exact constructors / printers; generic over the std:: types the backend emits)
    namespace k<i> { <emitted body of kernel i> }          -- one per (program x option set)
    static void c<j>() { build args at the storage types of signature(); fesetround(entry mode); call; print }
    main: runs calls start..N-1, one output line per call, flushed, so that a crash is attributed to a call

The driver never interprets values: floats/doubles are printed as raw bits (memcpy), integers in decimal,
bools as 0/1, lists as `L<n>` followed by the elements, tuples as `T<n>` followed by the fields; the
printer is selected by C++ overload resolution on whatever the kernel actually returned.

Nothing here knows about FPy programs; `props/c11_cpp.py` supplies kernels and compares parsed results
with the interpreter.
"""

from __future__ import annotations

import os
import re
import shutil
import struct
import signal
import subprocess
import tempfile
from dataclasses import dataclass, field

from fpy2.backend.cpp.types import CppList, CppScalar, CppTuple

GXX_FLAGS = ['-std=c++17', '-O0', '-frounding-math', '-ffp-contract=off', '-w']

FE_MACRO = {'RNE': 'FE_TONEAREST', 'RTZ': 'FE_TOWARDZERO', 'RTP': 'FE_UPWARD', 'RTN': 'FE_DOWNWARD'}


class HarnessError(Exception):
    """The driver (not the emitted kernel) is at fault, or the toolchain is unusable."""


def find_gxx():
    return shutil.which('g++')


def gxx_version(gxx):
    try:
        return subprocess.run([gxx, '--version'], capture_output=True, text=True, timeout=20).stdout.splitlines()[0]
    except Exception:
        return ''


@dataclass
class Kernel:
    ns: str                      # namespace the body is wrapped in
    body: str                    # text returned by CppCompiler.compile / compile_module
    entry: str                   # name of the entry function inside the body
    params: list                 # CppType per parameter (from CppCompiler.signature)
    ret: object                  # CppType of the result
    entry_rm: str                # 'RNE' | 'RTZ' | 'RTP' | 'RTN': fesetround precondition of the kernel
    calls: list = field(default_factory=list)      # python argument vectors (values already members of the parameter formats)
    tag: object = None           # opaque, for the caller


PRELUDE = r'''
#include <cstdio>
#include <cstdlib>
#include <cstring>
static inline float vt_f32(uint32_t b) { float f; std::memcpy(&f, &b, 4); return f; }
static inline double vt_f64(uint64_t b) { double d; std::memcpy(&d, &b, 8); return d; }
static void vt_p(float x);
static void vt_p(double x);
static void vt_p(bool x);
static void vt_p(int8_t x);
static void vt_p(int16_t x);
static void vt_p(int32_t x);
static void vt_p(int64_t x);
static void vt_p(uint8_t x);
static void vt_p(uint16_t x);
static void vt_p(uint32_t x);
static void vt_p(uint64_t x);
template <class T> static void vt_p(const std::vector<T>& v);
template <class T, size_t N> static void vt_p(const std::array<T, N>& v);
template <class T> static void vt_p(const std::shared_ptr<T>& p);
template <class... Ts> static void vt_p(const std::tuple<Ts...>& t);
static void vt_p(float x) { uint32_t b; std::memcpy(&b, &x, 4); std::printf("f%08x ", (unsigned)b); }
static void vt_p(double x) { uint64_t b; std::memcpy(&b, &x, 8); std::printf("d%016llx ", (unsigned long long)b); }
static void vt_p(bool x) { std::printf("b%d ", x ? 1 : 0); }
static void vt_p(int8_t x) { std::printf("i%lld ", (long long)x); }
static void vt_p(int16_t x) { std::printf("i%lld ", (long long)x); }
static void vt_p(int32_t x) { std::printf("i%lld ", (long long)x); }
static void vt_p(int64_t x) { std::printf("i%lld ", (long long)x); }
static void vt_p(uint8_t x) { std::printf("u%llu ", (unsigned long long)x); }
static void vt_p(uint16_t x) { std::printf("u%llu ", (unsigned long long)x); }
static void vt_p(uint32_t x) { std::printf("u%llu ", (unsigned long long)x); }
static void vt_p(uint64_t x) { std::printf("u%llu ", (unsigned long long)x); }
template <class T> static void vt_p(const std::vector<T>& v) {
    std::printf("L%zu ", v.size());
    for (size_t i = 0; i < v.size(); ++i) { T e = v[i]; vt_p(e); }
}
template <class T, size_t N> static void vt_p(const std::array<T, N>& v) {
    std::printf("L%zu ", (size_t)N);
    for (size_t i = 0; i < N; ++i) { vt_p(v[i]); }
}
template <class T> static void vt_p(const std::shared_ptr<T>& p) {
    if (!p) { std::printf("NULL "); return; }
    vt_p(*p);
}
template <class... Ts> static void vt_p(const std::tuple<Ts...>& t) {
    std::printf("T%zu ", sizeof...(Ts));
    std::apply([](const auto&... xs) { (vt_p(xs), ...); }, t);
}
'''


# ---------------------------------------------------------------------------
# values -> C++ expressions at a storage type

_INT_RANGE = {
    CppScalar.S8: (-2**7, 2**7 - 1), CppScalar.S16: (-2**15, 2**15 - 1), CppScalar.S32: (-2**31, 2**31 - 1),
    CppScalar.S64: (-2**63, 2**63 - 1), CppScalar.U8: (0, 2**8 - 1), CppScalar.U16: (0, 2**16 - 1),
    CppScalar.U32: (0, 2**32 - 1), CppScalar.U64: (0, 2**64 - 1),
}


def cpp_value(v, cty) -> str:
    """C++ expression of storage type `cty` holding exactly the python value `v` (float | int | bool | list | tuple)."""
    if isinstance(cty, CppList):
        if not isinstance(v, list):
            raise HarnessError(f'list storage {cty.format()} for non-list value {v!r}')
        elts = ', '.join(cpp_value(x, cty.elt) for x in v)
        et = cty.elt.format()
        if cty.boxed:
            return f'std::make_shared<std::vector<{et}>>(std::vector<{et}>{{{elts}}})'
        if cty.size is not None:
            if len(v) != cty.size:
                raise HarnessError(f'value of length {len(v)} for {cty.format()}')
            return f'{cty.format()}{{{{{elts}}}}}' if v else f'{cty.format()}{{}}'
        return f'std::vector<{et}>{{{elts}}}'
    if isinstance(cty, CppTuple):
        if not isinstance(v, tuple) or len(v) != len(cty.elts):
            raise HarnessError(f'tuple storage {cty.format()} for value {v!r}')
        return f'{cty.format()}({", ".join(cpp_value(x, t) for x, t in zip(v, cty.elts))})'
    if cty is CppScalar.BOOL:
        if not isinstance(v, bool):
            raise HarnessError(f'bool storage for value {v!r}')
        return 'true' if v else 'false'
    if isinstance(v, bool):
        raise HarnessError(f'{cty.format()} storage for bool value')
    if cty is CppScalar.F32:
        f = float(v)
        b = struct.unpack('<I', struct.pack('<f', f))[0]
        if f == f and struct.unpack('<f', struct.pack('<I', b))[0] != f:
            raise HarnessError(f'{v!r} is not a binary32 value')
        return f'vt_f32(0x{b:08x}u)'
    if cty is CppScalar.F64:
        f = float(v)
        if f == f and f not in (float('inf'), float('-inf')) and not isinstance(v, float) and int(f) != v:
            raise HarnessError(f'{v!r} is not a binary64 value')
        b = struct.unpack('<Q', struct.pack('<d', f))[0]
        return f'vt_f64(0x{b:016x}ull)'
    lo, hi = _INT_RANGE[cty]
    if isinstance(v, float):
        if v != v or v in (float('inf'), float('-inf')) or v != int(v):
            raise HarnessError(f'{v!r} has no {cty.format()} value')
        v = int(v)
    if not (lo <= v <= hi):
        raise HarnessError(f'{v!r} out of range of {cty.format()}')
    if lo == 0:
        return f'static_cast<{cty.format()}>({v}ull)'
    if v == -2**63:
        return f'static_cast<{cty.format()}>(-9223372036854775807ll - 1)'
    return f'static_cast<{cty.format()}>({v}ll)'


# ---------------------------------------------------------------------------
# translation unit

@dataclass
class TU:
    text: str
    calls: list                  # (kernel index, call index) per global call number
    body_lines: list             # (first, last) line of each kernel's namespace block
    call_lines: list             # (first, last) line of each global call function


def assemble(headers, kernels) -> TU:
    lines = list(headers)
    lines += PRELUDE.strip('\n').split('\n')
    body_lines = []
    for k in kernels:
        first = len(lines) + 1
        lines.append(f'namespace {k.ns} {{')
        lines += k.body.split('\n')
        lines.append(f'}} // namespace {k.ns}')
        body_lines.append((first, len(lines)))
    calls = []
    call_lines = []
    for ki, k in enumerate(kernels):
        for ci, args in enumerate(k.calls):
            n = len(calls)
            first = len(lines) + 1
            lines.append(f'static void vt_call{n}() {{')
            names = []
            if len(args) != len(k.params):
                raise HarnessError(f'{len(args)} arguments for {len(k.params)} parameters')
            for i, (v, cty) in enumerate(zip(args, k.params)):
                lines.append(f'    {cty.format()} vt_a{i} = {cpp_value(v, cty)};')
                names.append(f'vt_a{i}')
            fe = FE_MACRO[k.entry_rm]
            lines.append(f'    std::fesetround({fe});')
            lines.append(f'    auto vt_r = {k.ns}::{k.entry}({", ".join(names)});')
            lines.append('    const int vt_m = std::fegetround();')
            lines.append('    std::fesetround(FE_TONEAREST);')
            lines.append('    vt_p(vt_r);')
            lines.append(f'    std::printf("M%d\\n", vt_m == {fe} ? 1 : 0);')
            lines.append('}')
            call_lines.append((first, len(lines)))
            calls.append((ki, ci))
    lines.append('typedef void (*vt_fn)();')
    lines.append('static vt_fn vt_calls[] = {' + ', '.join(f'vt_call{n}' for n in range(len(calls))) + (', ' if calls else '') + 'nullptr};')
    lines.append('int main(int argc, char** argv) {')
    lines.append('    int start = argc > 1 ? std::atoi(argv[1]) : 0;')
    lines.append(f'    for (int i = start; i < {len(calls)}; ++i) {{')
    lines.append('        std::printf("C%d ", i); std::fflush(stdout);')
    lines.append('        vt_calls[i]();')
    lines.append('        std::fflush(stdout);')
    lines.append('    }')
    lines.append('    return 0;')
    lines.append('}')
    return TU('\n'.join(lines) + '\n', calls, body_lines, call_lines)


_ERR_RE = re.compile(r'^[^:\s]+\.cpp:(\d+):(?:\d+:)? (?:fatal )?error: (.*)$')


def _normalise_error(msg: str) -> str:
    msg = re.sub(r'‘[^’]*’', '‘_’', msg)
    msg = re.sub(r"'[^']*'", "'_'", msg)
    msg = re.sub(r'\d+', 'N', msg)
    return msg[:100]


def compile_tu(gxx, workdir, name, text):
    """-> (exe path | None, stderr)"""
    src = os.path.join(workdir, f'{name}.cpp')
    exe = os.path.join(workdir, f'{name}.exe')
    with open(src, 'w') as f:
        f.write(text)
    r = subprocess.run([gxx, *GXX_FLAGS, '-o', exe, src], capture_output=True, text=True, timeout=1800)
    if r.returncode != 0:
        return None, r.stderr
    return exe, r.stderr


def error_lines(stderr):
    out = []
    for ln in stderr.splitlines():
        m = _ERR_RE.match(ln)
        if m:
            out.append((int(m.group(1)), m.group(2)))
    return out


SPIN_CPU_SECONDS = 20


def _spin_or_timeout(exe, n):
    """A call that outlived the wall-clock watchdog is re-run alone under a CPU-time limit.  Wall-clock time says
    nothing under load; SPIN_CPU_SECONDS of *CPU* spent inside one call of a generated kernel (every generated loop
    makes <= 4 trips and the interpreter answered the same call) is non-termination: ('spin',).  If the call answers
    this time its answer is used; anything else stays ('timeout',), i.e. inconclusive."""
    import resource

    def limit():
        resource.setrlimit(resource.RLIMIT_CPU, (SPIN_CPU_SECONDS, SPIN_CPU_SECONDS + 5))
    try:
        r = subprocess.run([exe, str(n)], capture_output=True, timeout=600, preexec_fn=limit)
    except subprocess.TimeoutExpired:
        return ('timeout',)
    started = False
    for ln in r.stdout.decode('ascii', 'replace').split('\n'):
        toks = ln.split()
        if not toks or not toks[0].startswith('C') or not toks[0][1:].isdigit() or int(toks[0][1:]) != n:
            continue
        started = True
        if toks[-1] in ('M0', 'M1') and len(toks) >= 2:
            return ('ok', toks[1:-1], toks[-1] == 'M1')
    if r.returncode in (-signal.SIGXCPU, -signal.SIGKILL) and (started or r.stdout.strip() == b''):
        return ('spin',)
    return ('timeout',)


def run_exe(exe, ncalls, timeout=15):
    """Runs the driver, restarting after a call that kills the process.
    -> dict call number -> ('ok', tokens, mode_ok) | ('abort', signal/returncode, stderr tail) | ('timeout',)"""
    results = {}
    start = 0
    n_timeouts = 0
    while start < ncalls:
        try:
            r = subprocess.run([exe, str(start)], capture_output=True, timeout=timeout)
            out, err, rc, timed_out = r.stdout, r.stderr, r.returncode, False
        except subprocess.TimeoutExpired as e:
            out, err, rc, timed_out = e.stdout or b'', e.stderr or b'', None, True
        last_started = None
        for ln in out.decode('ascii', 'replace').split('\n'):
            if not ln.startswith('C'):
                continue
            toks = ln.split()
            n = int(toks[0][1:])
            last_started = n
            if toks and toks[-1] in ('M0', 'M1') and len(toks) >= 2:
                results[n] = ('ok', toks[1:-1], toks[-1] == 'M1')
        if timed_out:
            n = last_started if last_started is not None and last_started not in results else start
            results[n] = _spin_or_timeout(exe, n)
            start = n + 1
            n_timeouts += 1
            if n_timeouts >= 6:
                # bounded: a unit whose calls keep hanging is inconclusive as a whole, the check must still end
                for m in range(start, ncalls):
                    results.setdefault(m, ('timeout',))
                break
            continue
        if rc == 0:
            break
        # died inside a call
        n = last_started if last_started is not None and last_started not in results else start
        results[n] = ('abort', rc, err.decode('utf8', 'replace')[-300:])
        start = n + 1
    for n in range(ncalls):
        if n not in results:
            results[n] = ('abort', 'no-output', '')
    return results


def parse_tokens(toks):
    """token list -> tree:  ('f', bits) ('d', bits) ('i', int) ('u', int) ('b', 0|1) ('L', [..]) ('T', [..]) ('NULL',)"""
    pos = [0]

    def one():
        if pos[0] >= len(toks):
            raise HarnessError(f'truncated driver output: {toks}')
        t = toks[pos[0]]
        pos[0] += 1
        k = t[0]
        if t == 'NULL':
            return ('NULL',)
        if k in 'fd':
            return (k, int(t[1:], 16))
        if k in 'iu':
            return (k, int(t[1:]))
        if k == 'b':
            return ('b', int(t[1:]))
        if k in 'LT':
            n = int(t[1:])
            return (k, [one() for _ in range(n)])
        raise HarnessError(f'bad driver token {t!r}')

    tree = one()
    if pos[0] != len(toks):
        raise HarnessError(f'trailing driver output: {toks}')
    return tree


def leaf_float(node):
    """python float of an 'f'/'d' leaf"""
    if node[0] == 'f':
        return struct.unpack('<f', struct.pack('<I', node[1]))[0]
    return struct.unpack('<d', struct.pack('<Q', node[1]))[0]


@dataclass
class BuildResult:
    results: dict                # kernel index -> list per call of run_exe results
    invalid: dict                # kernel index -> (normalised reason, raw message)   [emitted body does not compile]
    built: int = 0


def build_and_run(gxx, headers, kernels, workdir, name='tu', run_timeout=15) -> BuildResult:
    """Builds all kernels in one TU (dropping those whose *emitted body* g++ rejects, which are
    re-compiled alone to attribute the error), runs every call.  A g++ error located in harness
    lines raises HarnessError."""
    active = list(range(len(kernels)))
    invalid = {}
    for attempt in range(6):
        sub = [kernels[i] for i in active]
        tu = assemble(headers, sub)
        exe, err = compile_tu(gxx, workdir, f'{name}_{attempt}', tu.text)
        if exe is not None:
            break
        errs = error_lines(err)
        if not errs:
            raise HarnessError(f'g++ failed without a located error:\n{err[-2000:]}')
        bad = {}
        for ln, msg in errs:
            hit = None
            for j, (a, b) in enumerate(tu.body_lines):
                if a <= ln <= b:
                    hit = j
                    break
            if hit is None:
                for n, (a, b) in enumerate(tu.call_lines):
                    if a <= ln <= b:
                        hit = tu.calls[n][0]
                        break
            if hit is None:
                raise HarnessError(f'g++ error outside any kernel (line {ln}): {msg}\n{err[-1500:]}')
            bad.setdefault(hit, msg)
        # attribute: compile each suspect alone, body only (no calls): if the body alone fails the backend emitted
        # invalid C++; if the body compiles and only the calls fail, the harness built a wrong driver.
        for j, msg in bad.items():
            k = sub[j]
            alone = Kernel(k.ns, k.body, k.entry, k.params, k.ret, k.entry_rm, [], k.tag)
            tu1 = assemble(headers, [alone])
            exe1, err1 = compile_tu(gxx, workdir, f'{name}_{attempt}_solo{j}', tu1.text)
            if exe1 is not None:
                full = assemble(headers, [k])
                exe2, err2 = compile_tu(gxx, workdir, f'{name}_{attempt}_solo{j}c', full.text)
                if exe2 is None:
                    e2 = error_lines(err2)
                    m2 = e2[0][1] if e2 else msg
                    # a call that does not type-check against the emitted signature: signature() and compile() disagree
                    invalid[active[j]] = ('signature-mismatch/' + _normalise_error(m2), m2 + '\n' + err2[-600:])
                else:
                    raise HarnessError(f'kernel compiles alone but not in the batch (namespace leak?): {msg}\n{err[-1500:]}')
            else:
                e1 = error_lines(err1)
                m1 = e1[0][1] if e1 else msg
                invalid[active[j]] = (_normalise_error(m1), m1)
        active = [i for jj, i in enumerate(active) if jj not in bad]
        if not active:
            return BuildResult({}, invalid, 0)
    else:
        raise HarnessError('g++ keeps failing after removing the kernels it blamed')
    raw = run_exe(exe, len(tu.calls), timeout=run_timeout)
    results = {i: [None] * len(kernels[i].calls) for i in active}
    for n, (j, ci) in enumerate(tu.calls):
        results[active[j]][ci] = raw[n]
    return BuildResult(results, invalid, len(active))


def make_workdir():
    return tempfile.mkdtemp(prefix='verif-c11-')


def remove_workdir(d):
    shutil.rmtree(d, ignore_errors=True)
