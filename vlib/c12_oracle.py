"""
C12 oracles.

(c) structural annotation check
    `source_events(src)` walks Python's own `ast` of the generated text (no fpy2 code involved) and lists, in
    evaluation order, every rounded node (arithmetic operation, rounded constant, call) together with the
    context descriptor of the `with` block / declared context that encloses it in the SOURCE.
    `core_events(core)` walks the emitted titanfp FPCore tree in the same order keeping the stack of `!`
    annotations and lists the same nodes with the properties in force.  The two lists must agree node by node.

(a) titanfp reference evaluation, (b) read-back evaluation: thin wrappers that convert arguments/results
    to vlib.denote denotations (tuples and lists both become ('S', ...) because FPCore only has arrays).
"""

from __future__ import annotations

import ast
import math
import signal
from fractions import Fraction

import titanfp.fpbench.fpcast as fpc
from titanfp.arithmetic.mpmf import MPMF, Interpreter
from titanfp.titanic import ndarray

from vlib.denote import NAN, NINF, PINF, deep_den, den_real

# ---------------------------------------------------------------------------------------------------------
# context descriptors
#   ('float', es, nbits, rm) | ('integer', rm) | ('fixed', scale, nbits, rm, ov) | ('real',) | ('inherit',)

NAMED = {'FP16': ('float', 5, 16, 'RNE'), 'FP32': ('float', 8, 32, 'RNE'), 'FP64': ('float', 11, 64, 'RNE'),
         'FP128': ('float', 15, 128, 'RNE'), 'REAL': ('real',), 'INTEGER': ('integer', 'RTZ')}
OV_NAMES = {'SATURATE': 'clamp', 'WRAP': 'wrap', 'OVERFLOW': 'infinity'}
DEFAULT = ('float', 11, 64, 'RNE')
INHERIT = ('inherit',)


class Unsupported(Exception):
    pass


def _attr_chain(e):
    parts = []
    while isinstance(e, ast.Attribute):
        parts.append(e.attr)
        e = e.value
    if isinstance(e, ast.Name):
        parts.append(e.id)
    return list(reversed(parts))


def _int_lit(e):
    if isinstance(e, ast.UnaryOp) and isinstance(e.op, ast.USub) and isinstance(e.operand, ast.Constant):
        return -e.operand.value
    if isinstance(e, ast.Constant) and isinstance(e.value, int):
        return e.value
    raise Unsupported(f'context argument {ast.dump(e)}')


def ctx_of_expr(e) -> tuple:
    """Context descriptor of a context expression, read from the source text only."""
    if isinstance(e, ast.Attribute):
        ch = _attr_chain(e)
        if len(ch) == 2 and ch[0] == 'fp' and ch[1] in NAMED:
            return NAMED[ch[1]]
    if isinstance(e, ast.Call):
        ch = _attr_chain(e.func)
        if ch[:1] == ['fp'] and len(ch) == 2:
            def rm(a):
                c = _attr_chain(a)
                if c[:2] == ['fp', 'RM'] and len(c) == 3:
                    return c[2]
                raise Unsupported('rounding mode')
            if ch[1] == 'IEEEContext' and len(e.args) == 3:
                return ('float', _int_lit(e.args[0]), _int_lit(e.args[1]), rm(e.args[2]))
            if ch[1] == 'MPFixedContext' and len(e.args) == 2 and _int_lit(e.args[0]) == -1:
                # FPCore `integer` has no signed zero, NaN or infinity: only the fp.INTEGER family is expressible
                kws = {k.arg: getattr(k.value, 'value', None) for k in e.keywords}
                if kws == {'enable_neg_zero': False}:
                    return ('integer', rm(e.args[1]))
                raise Unsupported('MPFixedContext(-1, ...) with a signed zero is not FPCore `integer`')
            if ch[1] == 'FixedContext' and len(e.args) == 5 and isinstance(e.args[0], ast.Constant) and isinstance(e.args[0].value, bool):
                ov = _attr_chain(e.args[4])
                if ov[:2] != ['fp', 'OV'] or ov[2] not in OV_NAMES:
                    raise Unsupported('overflow mode')
                # an unsigned format has no FPCore spelling ((fixed s n) is two's complement): 'ufixed' matches no annotation
                return ('fixed' if e.args[0].value else 'ufixed', _int_lit(e.args[1]), _int_lit(e.args[2]), rm(e.args[3]), OV_NAMES[ov[2]])
    raise Unsupported(f'context expression {ast.unparse(e)}')


BINOPS = {ast.Add: '+', ast.Sub: '-', ast.Mult: '*', ast.Div: '/'}
FP_UNARY = {'sqrt': 'sqrt', 'floor': 'floor', 'ceil': 'ceil', 'trunc': 'trunc'}


class Event:
    __slots__ = ('kind', 'ctx', 'trail', 'line')

    def __init__(self, kind, ctx, trail=(), line=0):
        self.kind = kind        # ('op', name) | ('dec', Fraction) | ('rint', v) | ('int', v) | ('call', name)
        self.ctx = ctx          # descriptor (source side) / effective properties (core side)
        self.trail = trail      # source side: contexts of `with` blocks closed earlier whose continuation holds this node
        self.line = line

    def __repr__(self):
        return f'{self.kind}@{self.ctx}'


class SourceInfo:
    def __init__(self):
        self.events = {}        # function name -> [Event]
        self.declared = {}      # function name -> descriptor | None
        self.distinct_ctx = 0
        self.after_inner = False
        self.max_carried = 0
        self.n_with = 0
        self.max_with_depth = 0


def source_events(src: str) -> SourceInfo:
    tree = ast.parse(src)
    info = SourceInfo()
    all_ctx = set()
    for node in tree.body:
        if not isinstance(node, ast.FunctionDef):
            continue
        declared = None
        for deco in node.decorator_list:
            if isinstance(deco, ast.Call):
                for kw in deco.keywords:
                    if kw.arg == 'ctx':
                        declared = ctx_of_expr(kw.value)
        info.declared[node.name] = declared
        base = declared if declared is not None else (DEFAULT if node.name == 'main' else INHERIT)
        w = _SrcWalker(info, set(a.arg for a in node.args.args))
        w.block(node.body, base, [], 0)
        info.events[node.name] = w.out
        for ev in w.out:
            if ev.kind[0] != 'int':
                all_ctx.add(ev.ctx)
            if ev.trail:
                info.after_inner = True
    info.distinct_ctx = len(all_ctx)
    return info


class _SrcWalker:
    def __init__(self, info, defined):
        self.info = info
        self.out = []
        self.defined = set(defined)

    def emit(self, kind, ctx, trail, node):
        self.out.append(Event(kind, ctx, tuple(trail), getattr(node, 'lineno', 0)))

    def targets(self, t):
        if isinstance(t, ast.Name):
            return {t.id}
        if isinstance(t, (ast.Tuple, ast.List)):
            s = set()
            for e in t.elts:
                s |= self.targets(e)
            return s
        if isinstance(t, ast.Subscript):
            return self.targets(t.value)
        return set()

    def assigned_in(self, stmts):
        s = set()
        for st in stmts:
            for n in ast.walk(st):
                if isinstance(n, ast.Assign):
                    for t in n.targets:
                        s |= self.targets(t)
                elif isinstance(n, (ast.AugAssign, ast.AnnAssign)):
                    s |= self.targets(n.target)
        return s

    def block(self, stmts, ctx, trail, depth, share=False):
        # the tail of a `with` body continues into the statements after the block (share=True); the body of a
        # branch or loop is closed off by the branch/loop construct
        if not share:
            trail = list(trail)
        for s in stmts:
            self.stmt(s, ctx, trail, depth)

    def stmt(self, s, ctx, trail, depth):
        if isinstance(s, ast.Assign):
            if len(s.targets) != 1:
                raise Unsupported('multiple targets')
            t = s.targets[0]
            if isinstance(t, ast.Subscript):
                # xs[i] = v lowers to (let ([t xs] [i <index>] [v <value>]) (tensor ...)): the index is a let binding
                sub = t
                idxs = []
                while isinstance(sub, ast.Subscript):
                    idxs.append(sub.slice)
                    sub = sub.value
                for ix in reversed(idxs):
                    self.expr(ix, ctx, trail)
            self.expr(s.value, ctx, trail)
            self.defined |= self.targets(t)
        elif isinstance(s, ast.AnnAssign):
            self.expr(s.value, ctx, trail)
            self.defined |= self.targets(s.target)
        elif isinstance(s, ast.AugAssign):
            self.expr(s.value, ctx, trail)
            if type(s.op) not in BINOPS:
                raise Unsupported('augmented operator')
            self.emit(('op', BINOPS[type(s.op)]), ctx, trail, s)
        elif isinstance(s, ast.If):
            self.expr(s.test, ctx, trail)
            self.block(s.body, ctx, trail, depth)
            self.block(s.orelse, ctx, trail, depth)
            both = self.assigned_in(s.body) & self.assigned_in(s.orelse)
            self.defined |= both
        elif isinstance(s, ast.While):
            self.expr(s.test, ctx, trail)
            carried = self.assigned_in(s.body) & self.defined
            self.info.max_carried = max(self.info.max_carried, len(carried))
            self.block(s.body, ctx, trail, depth)
        elif isinstance(s, ast.For):
            self.expr(s.iter, ctx, trail)
            carried = (self.assigned_in(s.body) & self.defined) - self.targets(s.target)
            self.info.max_carried = max(self.info.max_carried, len(carried))
            self.block(s.body, ctx, trail, depth)
        elif isinstance(s, ast.With):
            if len(s.items) != 1 or s.items[0].optional_vars is not None:
                raise Unsupported('with form')
            inner = ctx_of_expr(s.items[0].context_expr)
            self.info.n_with += 1
            self.info.max_with_depth = max(self.info.max_with_depth, depth + 1)
            self.block(s.body, inner, trail, depth + 1, share=True)
            # everything that follows in this block (and in the continuation of the enclosing blocks) comes
            # after this inner block
            trail.append(inner)
        elif isinstance(s, ast.Return):
            self.expr(s.value, ctx, trail)
        elif isinstance(s, ast.Pass):
            pass
        else:
            raise Unsupported(type(s).__name__)

    def expr(self, e, ctx, trail):
        if isinstance(e, ast.Constant):
            if isinstance(e.value, bool):
                return
            if isinstance(e.value, int):
                self.emit(('int', e.value), ctx, trail, e)
                return
            raise Unsupported('unrounded non-integer literal')
        if isinstance(e, ast.Name):
            return
        if isinstance(e, ast.BinOp):
            if type(e.op) not in BINOPS:
                raise Unsupported('operator')
            self.expr(e.left, ctx, trail)
            self.expr(e.right, ctx, trail)
            self.emit(('op', BINOPS[type(e.op)]), ctx, trail, e)
            return
        if isinstance(e, ast.UnaryOp):
            if isinstance(e.op, ast.Not):
                self.expr(e.operand, ctx, trail)
                return
            if isinstance(e.op, ast.USub):
                if isinstance(e.operand, ast.Constant):
                    raise Unsupported('negated literal')
                self.expr(e.operand, ctx, trail)
                self.emit(('op', 'neg'), ctx, trail, e)
                return
            raise Unsupported('unary operator')
        if isinstance(e, ast.BoolOp):
            for v in e.values:
                self.expr(v, ctx, trail)
            return
        if isinstance(e, ast.Compare):
            ops = [type(o) for o in e.ops]
            if len(set(ops)) > 1:
                # a chain with mixed operators duplicates the shared operand in the emitted core
                for mid in e.comparators[:-1]:
                    if not isinstance(mid, ast.Name):
                        raise Unsupported('mixed chain with a non-variable middle operand')
            self.expr(e.left, ctx, trail)
            for c in e.comparators:
                self.expr(c, ctx, trail)
            return
        if isinstance(e, ast.IfExp):
            self.expr(e.test, ctx, trail)
            self.expr(e.body, ctx, trail)
            self.expr(e.orelse, ctx, trail)
            return
        if isinstance(e, (ast.Tuple, ast.List)):
            for x in e.elts:
                self.expr(x, ctx, trail)
            return
        if isinstance(e, ast.ListComp):
            if len(e.generators) != 1 or e.generators[0].ifs:
                raise Unsupported('comprehension form')
            self.expr(e.generators[0].iter, ctx, trail)
            self.expr(e.elt, ctx, trail)
            return
        if isinstance(e, ast.Subscript):
            self.expr(e.value, ctx, trail)
            if not isinstance(e.slice, (ast.Constant, ast.Name)):
                raise Unsupported('index expression')
            return
        if isinstance(e, ast.Call):
            ch = _attr_chain(e.func)
            if ch[:1] == ['fp'] and len(ch) == 2:
                f = ch[1]
                if f == 'round':
                    a = e.args[0]
                    if isinstance(a, ast.Constant) and not isinstance(a.value, bool):
                        if isinstance(a.value, int):
                            self.emit(('rint', a.value), ctx, trail, e)
                        else:
                            self.emit(('dec', Fraction(repr(a.value))), ctx, trail, e)
                        return
                    self.expr(a, ctx, trail)
                    self.emit(('op', 'cast'), ctx, trail, e)
                    return
                if f in FP_UNARY:
                    self.expr(e.args[0], ctx, trail)
                    self.emit(('op', FP_UNARY[f]), ctx, trail, e)
                    return
                if f == 'fma':
                    for a in e.args:
                        self.expr(a, ctx, trail)
                    self.emit(('op', 'fma'), ctx, trail, e)
                    return
                if f in ('fst', 'snd', 'isnan', 'isinf', 'isfinite', 'signbit'):
                    self.expr(e.args[0], ctx, trail)
                    return
                raise Unsupported(f'fp.{f}')
            if len(ch) == 1:
                f = ch[0]
                if f == 'abs':
                    self.expr(e.args[0], ctx, trail)
                    self.emit(('op', 'fabs'), ctx, trail, e)
                    return
                if f in ('min', 'max', 'len', 'any', 'all', 'zip', 'enumerate'):
                    for a in e.args:
                        self.expr(a, ctx, trail)
                    return
                if f == 'sum':
                    self.expr(e.args[0], ctx, trail)
                    self.emit(('op', '+'), ctx, trail, e)
                    return
                if f == 'range':
                    if len(e.args) != 1:
                        raise Unsupported('range form')
                    self.expr(e.args[0], ctx, trail)
                    return
                # helper call
                for a in e.args:
                    self.expr(a, ctx, trail)
                self.emit(('call', f), ctx, trail, e)
                return
        raise Unsupported(ast.dump(e)[:80])


# ---------------------------------------------------------------------------------------------------------
# emitted core

PREC_NAMES = {'binary16': ('float', 5, 16), 'binary32': ('float', 8, 32), 'binary64': ('float', 11, 64),
              'binary80': ('float', 15, 79), 'binary128': ('float', 15, 128), 'integer': ('integer',), 'real': ('real',)}
ROUND_NAMES = {'nearesteven': 'RNE', 'nearestaway': 'RNA', 'topositive': 'RTP', 'tonegative': 'RTN',
               'tozero': 'RTZ', 'awayzero': 'RAZ'}
CORE_OPS = [(fpc.Add, '+'), (fpc.Sub, '-'), (fpc.Mul, '*'), (fpc.Div, '/'), (fpc.Neg, 'neg'), (fpc.Fabs, 'fabs'),
            (fpc.Sqrt, 'sqrt'), (fpc.Fma, 'fma'), (fpc.Cast, 'cast'), (fpc.Floor, 'floor'), (fpc.Ceil, 'ceil'),
            (fpc.Trunc, 'trunc')]


def prop_to_py(v):
    if isinstance(v, fpc.Data):
        return prop_to_py(v.value)
    if isinstance(v, (tuple, list)):
        return [prop_to_py(x) for x in v]
    if isinstance(v, fpc.Expr):
        if hasattr(v, 'value'):
            return str(v.value)
        return str(v)
    return str(v)


def norm_props(props: dict):
    """(precision | None, round | None, overflow | None) in canonical form; unknown spellings are kept verbatim."""
    prec = rnd = ov = None
    if 'precision' in props:
        p = prop_to_py(props['precision'])
        if isinstance(p, str):
            prec = PREC_NAMES.get(p.lower(), ('?', p))
        elif isinstance(p, list) and len(p) == 3 and str(p[0]).lower() in ('float', 'fixed'):
            try:
                prec = (str(p[0]).lower(), int(p[1]), int(p[2]))
            except ValueError:
                prec = ('?', repr(p))
        else:
            prec = ('?', repr(p))
    if 'round' in props:
        r = prop_to_py(props['round'])
        rnd = ROUND_NAMES.get(str(r).lower(), ('?', str(r)))
    if 'overflow' in props:
        ov = str(prop_to_py(props['overflow'])).lower()
    return prec, rnd, ov


def effective(stack):
    """Merge a stack of normalised property triples: the innermost annotation carrying a property wins."""
    prec = rnd = ov = None
    for p, r, o in stack:
        if p is not None:
            prec = p
        if r is not None:
            rnd = r
        if o is not None:
            ov = o
    return prec, rnd, ov


def matches(expected, eff) -> bool:
    prec, rnd, ov = eff
    if expected == INHERIT:
        return prec is None and rnd is None
    prec = prec if prec is not None else ('float', 11, 64)
    rnd = rnd if rnd is not None else 'RNE'
    ov = ov if ov is not None else 'infinity'
    k = expected[0]
    if k == 'float':
        return prec == ('float', expected[1], expected[2]) and rnd == expected[3]
    if k == 'integer':
        return prec == ('integer',) and rnd == expected[1]
    if k == 'fixed':
        return prec == ('fixed', expected[1], expected[2]) and rnd == expected[3] and ov == expected[4]
    if k == 'real':
        return prec == ('real',)
    return False


def eff_as_descriptor(eff):
    """Best-effort descriptor of effective properties (used to recognise 'this is the context of an earlier block')."""
    prec, rnd, ov = eff
    prec = prec if prec is not None else ('float', 11, 64)
    rnd = rnd if rnd is not None else 'RNE'
    ov = ov if ov is not None else 'infinity'
    if prec[0] == 'float':
        return ('float', prec[1], prec[2], rnd)
    if prec[0] == 'integer':
        return ('integer', rnd)
    if prec[0] == 'fixed':
        return ('fixed', prec[1], prec[2], rnd, ov)
    if prec[0] == 'real':
        return ('real',)
    return ('?',) + tuple(prec[1:])


def _is_int_only(props):
    return set(props.keys()) == {'precision'} and str(prop_to_py(props['precision'])).lower() == 'integer'


def core_events(core: fpc.FPCore):
    out = []
    stack = [norm_props(core.props or {})]

    def emit(kind):
        out.append(Event(kind, effective(stack)))

    def walk(e, index_pos=False):
        if isinstance(e, fpc.Ctx):
            if _is_int_only(e.props):
                # synthesised by the lowering: an exact integer literal (`unsafe_int_cast`) or index arithmetic
                if isinstance(e.body, fpc.Integer):
                    if not index_pos:
                        out.append(Event(('int', int(e.body.value)), ('exact',)))
                    return
                if isinstance(e.body, (fpc.Add, fpc.Sub, fpc.Size)):
                    return
            stack.append(norm_props(e.props))
            walk(e.body)
            stack.pop()
            return
        if isinstance(e, fpc.Integer):
            if not index_pos:
                emit(('rint', int(e.value)))
            return
        if isinstance(e, fpc.Decnum):
            emit(('dec', Fraction(str(e.value))))
            return
        if isinstance(e, (fpc.Hexnum, fpc.Rational, fpc.Digits)):
            emit(('const', str(e)))
            return
        if isinstance(e, (fpc.Var, fpc.Constant)):
            return
        if isinstance(e, fpc.LetStar) or isinstance(e, fpc.Let):
            for _, v in e.let_bindings:
                walk(v)
            walk(e.body)
            return
        if isinstance(e, fpc.If):
            walk(e.cond)
            walk(e.then_body)
            walk(e.else_body)
            return
        if isinstance(e, fpc.While):          # includes WhileStar
            for _, init, _ in e.while_bindings:
                walk(init)
            walk(e.cond)
            for _, _, upd in e.while_bindings:
                walk(upd)
            walk(e.body)
            return
        if isinstance(e, fpc.For):            # includes ForStar
            for _, d in e.dim_bindings:
                walk(d)
            for _, init, _ in e.while_bindings:
                walk(init)
            for _, _, upd in e.while_bindings:
                walk(upd)
            walk(e.body)
            return
        if isinstance(e, fpc.Tensor):
            for _, d in e.dim_bindings:
                walk(d)
            if hasattr(e, 'while_bindings'):
                for _, init, _ in e.while_bindings:
                    walk(init)
                for _, _, upd in e.while_bindings:
                    walk(upd)
            walk(e.body)
            return
        if isinstance(e, fpc.Ref):
            walk(e.children[0])
            for c in e.children[1:]:
                walk(c, index_pos=True)
            return
        if isinstance(e, fpc.Size):
            walk(e.children[0])
            for c in e.children[1:]:
                walk(c, index_pos=True)
            return
        if isinstance(e, fpc.UnknownOperator):
            for c in e.children:
                walk(c)
            emit(('call', e.name))
            return
        for cls, name in CORE_OPS:
            if type(e) is cls:
                for c in e.children:
                    walk(c)
                emit(('op', name))
                return
        if isinstance(e, fpc.NaryExpr):       # comparisons, logic, predicates, array, dim ...: not rounded themselves
            for c in e.children:
                walk(c)
            return
        raise Unsupported(f'core node {type(e).__name__}')

    walk(core.e)
    return out


def structural_check(src_events, core_evs):
    """-> ('ok', None) | ('misaligned', detail) | ('fail', bucket, detail)"""
    ks = [e.kind for e in src_events]
    kc = [e.kind for e in core_evs]
    if ks != kc:
        i = 0
        while i < min(len(ks), len(kc)) and ks[i] == kc[i]:
            i += 1
        return ('misaligned', f'node {i}: source {ks[i:i + 3]} core {kc[i:i + 3]} (lengths {len(ks)}/{len(kc)})')
    for i, (s, c) in enumerate(zip(src_events, core_evs)):
        if s.kind[0] == 'int':
            continue
        if not matches(s.ctx, c.ctx):
            got = eff_as_descriptor(c.ctx)
            if s.ctx[0] == 'fixed' and got[0] == 'fixed' and got[1:3] == (s.ctx[2], s.ctx[1]) and s.ctx[1] != s.ctx[2]:
                bucket = 'fixed-arg-order'
            elif got in s.trail:
                bucket = 'ctx-scopes-continuation'
            else:
                bucket = 'annotation-mismatch'
            return ('fail', bucket, f'node {i} {s.kind} (source line {s.line}): encloses {s.ctx}, emitted under {c.ctx}')
    return ('ok', None)


# ---------------------------------------------------------------------------------------------------------
# evaluation glue

class Timeout(Exception):
    pass


def _alarm(signum, frame):
    raise Timeout()


def with_cpu_budget(seconds, thunk):
    """Runs thunk() under a CPU-time (not wall-clock) budget; Timeout propagates."""
    old = signal.signal(signal.SIGVTALRM, _alarm)
    signal.setitimer(signal.ITIMER_VIRTUAL, seconds)
    try:
        return thunk()
    finally:
        signal.setitimer(signal.ITIMER_VIRTUAL, 0)
        signal.signal(signal.SIGVTALRM, old)


def to_mpmf(x):
    """Python float / list -> titanfp argument, exactly (built from the float's own integer ratio)."""
    if isinstance(x, list):
        return [to_mpmf(v) for v in x]
    x = float(x)
    if math.isnan(x):
        return MPMF(negative=False, c=0, exp=0, isnan=True)
    if math.isinf(x):
        return MPMF(negative=x < 0, c=0, exp=0, isinf=True)
    neg = math.copysign(1.0, x) < 0
    if x == 0:
        return MPMF(negative=neg, c=0, exp=0)
    n, d = abs(x).as_integer_ratio()
    return MPMF(negative=neg, c=n, exp=-(d.bit_length() - 1))


def titan_den(v):
    if isinstance(v, bool):
        return v
    if isinstance(v, ndarray.NDArray):
        return ('S',) + tuple(titan_den(x) for x in v)
    if isinstance(v, MPMF) or hasattr(v, 'isnan'):
        if v.isnan:
            return NAN
        if v.isinf:
            return NINF if v.negative else PINF
        return den_real(bool(v.negative), int(v.c), int(v.exp))
    return ('?', repr(v))


def flat_den(v):
    """deep_den with lists and tuples identified (FPCore has arrays only)."""
    d = deep_den(v)

    def f(x):
        if isinstance(x, tuple) and x and x[0] in ('L', 'T'):
            return ('S',) + tuple(f(y) for y in x[1:])
        return x
    return f(d)


def run_titan(core, helper_cores, args, budget=6):
    """('value', den) | ('error', TypeName, msg) | ('timeout',)"""
    rt = Interpreter()
    rt.enable_analysis = False
    for hc in helper_cores:
        rt.register_function(hc)
    try:
        r = with_cpu_budget(budget, lambda: rt.interpret(core, [to_mpmf(a) for a in args]))
        return ('value', titan_den(r))
    except Timeout:
        return ('timeout',)
    except RecursionError:
        return ('error', 'RecursionError', '')
    except Exception as e:     # third-party reference evaluator: any failure of its own is "no verdict"
        return ('error', type(e).__name__, str(e)[:160])


def run_fpy(fn, args, budget=6):
    """('value', den) | ('raise', TypeName, msg) | ('timeout',)"""
    import copy
    a = copy.deepcopy(args)
    try:
        r = with_cpu_budget(budget, lambda: fn(*a))
        return ('value', flat_den(r))
    except Timeout:
        return ('timeout',)
    except Exception as e:
        return ('raise', type(e).__name__, str(e)[:160])
