import sys

if hasattr(sys, 'set_int_max_str_digits'):
    sys.set_int_max_str_digits(0)
