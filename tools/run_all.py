#!/usr/bin/env python3
"""Runs every check registered in MANIFEST.json (quick tier by default) against /repo and prints a summary.
    tools/run_all.py [--tier quick] [--jobs 16] [--only C01,C04] [--seed N]
Evidence files are rewritten by the checks themselves."""
import argparse
import json
import os
import subprocess
import sys
import time
from pathlib import Path

HERE = Path(__file__).resolve().parent.parent


def main():
    ap = argparse.ArgumentParser()
    ap.add_argument('--tier', default='quick')
    ap.add_argument('--jobs', default='16')
    ap.add_argument('--only', default='')
    ap.add_argument('--seed', default='1')
    a = ap.parse_args()
    man = json.loads((HERE / 'MANIFEST.json').read_text())
    only = list(filter(None, a.only.split(',')))
    bad = 0
    checks = man['checks']
    if only:      # in the order given
        checks = sorted((c for c in checks if c['property_id'] in only), key=lambda c: only.index(c['property_id']))
    for c in checks:
        pid = c['property_id']
        t0 = time.time()
        env = dict(os.environ, VERIF_SEED=a.seed, VERIF_TIER=a.tier, VERIF_JOBS=a.jobs)
        cmd = c['quick_cmd'] if a.tier == 'quick' else c['thorough_cmd']
        r = subprocess.run(cmd, shell=True, cwd=str(HERE), env=env, capture_output=True, text=True)
        lines = [l for l in r.stdout.splitlines() if l.startswith(('VIOLATION', 'KNOWN-FINDING', 'HARNESS', 'FAIL'))]
        print(f'{pid} exit={r.returncode} wall={time.time() - t0:.0f}s', *[l[:200] for l in lines], sep='\n  ', flush=True)
        bad += r.returncode != 0
    return 1 if bad else 0


if __name__ == '__main__':
    sys.exit(main())
