#!/usr/bin/env python3
"""Prints the DESIGN.md §10.5 table (markdown) from evidence/*.json."""
import json
from pathlib import Path
HERE = Path(__file__).resolve().parent.parent
print('| Check | evaluations | distinct non-trivial | wall s | bounded space exhaustive | open findings hit |')
print('|---|---|---|---|---|---|')
for f in sorted((HERE / 'evidence').glob('C*.json')):
    ev = json.loads(f.read_text())
    e = dict(ev['coverage'], wall_s=ev.get('wall_s', 0))
    kf = ', '.join(e.get('known_findings_hit') or []) or '–'
    print(f"| {f.stem} | {e['evaluations']:,} | {e['distinct_nontrivial']:,} | {e['wall_s']:.0f} | "
          f"{'yes' if e.get('exhaustive') else 'no'} | {kf} |")
