#!/usr/bin/env python3
"""
Sensitivity runner: applies source mutations one at a time to a scratch worktree of /repo and
runs a property check against it (VERIF_REPO), recording whether the check raises a VIOLATION.

    tools/sens.py C01 [--tier quick] [--jobs 8] [--only name,...]

Mutations are listed in tools/mutations/<ID>.json:
    [{"name": "...", "file": "fpy2/...", "old": "...", "new": "...", "count": 1}, ...]
Results are appended to tools/mutations/<ID>.results.json.  The worktree lives under
/tmp/verif-sens-<ID> and is removed at the end.
"""
import argparse
import json
import os
import subprocess
import sys
import time
from pathlib import Path

HERE = Path(__file__).resolve().parent.parent


def sh(*a, **kw):
    return subprocess.run(a, capture_output=True, text=True, **kw)


def main():
    ap = argparse.ArgumentParser()
    ap.add_argument('pid')
    ap.add_argument('--tier', default='quick')
    ap.add_argument('--jobs', default='8')
    ap.add_argument('--only', default='')
    ap.add_argument('--timeout', type=int, default=3600)
    args = ap.parse_args()
    pid = args.pid.upper()
    muts = json.loads((HERE / 'tools' / 'mutations' / f'{pid}.json').read_text())
    only = set(filter(None, args.only.split(',')))
    wt = f'/tmp/verif-sens-{pid}'
    sh('git', '-C', '/repo', 'worktree', 'remove', '--force', wt)
    r = sh('git', '-C', '/repo', 'worktree', 'add', '--detach', wt, 'HEAD')
    if r.returncode:
        print(r.stderr)
        return 2
    resf = HERE / 'tools' / 'mutations' / f'{pid}.results.json'
    results = json.loads(resf.read_text()) if resf.exists() else {}
    try:
        for m in muts:
            if only and m['name'] not in only:
                continue
            sh('git', '-C', wt, 'checkout', '--', '.')
            p = Path(wt) / m['file']
            s = p.read_text()
            cnt = s.count(m['old'])
            if cnt != m.get('count', 1):
                print(f'{m["name"]}: pattern occurs {cnt} times, expected {m.get("count", 1)} -- skipped')
                results[m['name']] = {'status': 'pattern-mismatch'}
                continue
            p.write_text(s.replace(m['old'], m['new']))
            # does it still import?
            r = sh('/venv/bin/python', '-c', 'import fpy2', env=dict(os.environ, PYTHONPATH=wt))
            if r.returncode:
                results[m['name']] = {'status': 'does-not-import'}
                print(m['name'], 'does not import')
                continue
            t0 = time.time()
            env = dict(os.environ, VERIF_REPO=wt)
            try:
                r = sh(str(HERE / 'check'), pid, '--tier', args.tier, '--jobs', args.jobs, '--no-evidence', env=env,
                       timeout=args.timeout, cwd=str(HERE))
                out = r.stdout
                caught = r.returncode == 1 and 'VIOLATION' in out
                buckets = [l.split(' ')[1] for l in out.splitlines() if l.startswith('FAIL bucket=')]
                results[m['name']] = {'status': 'caught' if caught else ('harness-error' if r.returncode == 2 else 'missed'),
                                      'tier': args.tier, 'exit': r.returncode, 'buckets': buckets[:6], 'wall_s': round(time.time() - t0)}
            except subprocess.TimeoutExpired:
                results[m['name']] = {'status': 'timeout', 'tier': args.tier}
            print(m['name'], results[m['name']], flush=True)
            resf.write_text(json.dumps(results, indent=1))
            # clean auto replays written by the mutant run
            for f in (HERE / 'replays' / pid).glob('auto_*.json'):
                f.unlink()
    finally:
        sh('git', '-C', '/repo', 'worktree', 'remove', '--force', wt)
    resf.write_text(json.dumps(results, indent=1))
    return 0


if __name__ == '__main__':
    sys.exit(main())
