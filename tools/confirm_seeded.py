#!/usr/bin/env python3
"""
Confirms a seeded change independently: in a scratch worktree of /repo HEAD
  1. demo.py exits 0 on the pristine tree,
  2. the patch applies, the package still imports, demo.py exits 1 with it,
  3. a test subset (given on the command line) still passes with the patch,
and records the outcome in seeded/<id>/meta.json under "confirmed".

    tools/confirm_seeded.py C04-m1 tests/unit/interpret tests/unit/number
"""
import json
import os
import subprocess
import sys
from pathlib import Path

HERE = Path(__file__).resolve().parent.parent


def sh(*a, **kw):
    return subprocess.run(a, capture_output=True, text=True, **kw)


def main():
    sid = sys.argv[1]
    tests = sys.argv[2:]
    d = HERE / 'seeded' / sid
    wt = f'/tmp/verif-confirm-{sid}'
    sh('git', '-C', '/repo', 'worktree', 'remove', '--force', wt)
    assert sh('git', '-C', '/repo', 'worktree', 'add', '--detach', wt, 'HEAD').returncode == 0
    env = dict(os.environ, PYTHONPATH=wt, PYTHONDONTWRITEBYTECODE='1')
    out = {}
    try:
        demo = d / 'demo.py'
        # demos define @fp.fpy functions, so they must live in a real file; run a copy inside the worktree
        dst = Path(wt) / '_demo_seeded.py'
        pid = sid.split('-')[0]
        dst.write_text(demo.read_text().replace(f'/tmp/seed/{pid}r2', wt).replace(f'/tmp/seed/{pid}', wt))
        r0 = sh('/venv/bin/python', str(dst), env=env, cwd=wt, timeout=900)
        out['demo_pristine_exit'] = r0.returncode
        ra = sh('git', '-C', wt, 'apply', str(d / 'patch.diff'))
        out['patch_applies'] = ra.returncode == 0
        ri = sh('/venv/bin/python', '-c', 'import fpy2', env=env, cwd=wt)
        out['imports'] = ri.returncode == 0
        r1 = sh('/venv/bin/python', str(dst), env=env, cwd=wt, timeout=900)
        out['demo_patched_exit'] = r1.returncode
        out['demo_patched_output'] = (r1.stdout + r1.stderr)[-400:]
        if tests:
            rt = sh('/venv/bin/python', '-m', 'pytest', '-q', '-p', 'no:cacheprovider', '-x', *tests, env=env, cwd=wt, timeout=7200)
            tail = [l for l in rt.stdout.splitlines() if 'passed' in l or 'failed' in l or 'error' in l]
            out['tests'] = ' '.join(tests)
            out['tests_exit'] = rt.returncode
            out['tests_summary'] = tail[-1] if tail else rt.stdout[-200:]
    finally:
        sh('git', '-C', '/repo', 'worktree', 'remove', '--force', wt)
    out['ok'] = (out.get('demo_pristine_exit') == 0 and out.get('patch_applies') and out.get('imports')
                 and out.get('demo_patched_exit') == 1 and out.get('tests_exit', 0) == 0)
    meta = json.loads((d / 'meta.json').read_text())
    meta['confirmed'] = out
    (d / 'meta.json').write_text(json.dumps(meta, indent=1) + '\n')
    print(sid, json.dumps(out)[:600])
    return 0 if out['ok'] else 1


if __name__ == '__main__':
    sys.exit(main())
