#!/usr/bin/env python3
"""
Runs a property check against each seeded change of that property (seeded/<PID>-m*/patch.diff applied
to a scratch worktree of /repo HEAD, via VERIF_REPO) and records the outcome in meta.json["detection"].

    tools/run_seeded.py C01 [--tier quick] [--jobs 6] [--only C01-m2]
"""
import argparse
import json
import os
import subprocess
import sys
from pathlib import Path

HERE = Path(__file__).resolve().parent.parent


def sh(*a, **kw):
    return subprocess.run(a, capture_output=True, text=True, **kw)


def main():
    ap = argparse.ArgumentParser()
    ap.add_argument('pid')
    ap.add_argument('--tier', default='quick')
    ap.add_argument('--jobs', default='6')
    ap.add_argument('--only', default='')
    ap.add_argument('--check', default='', help='run this check instead of the property the change was written for')
    args = ap.parse_args()
    pid = args.pid.upper()
    chk = (args.check or pid).upper()
    wt = f'/tmp/verif-seeded-{pid}-{chk}'
    sh('git', '-C', '/repo', 'worktree', 'remove', '--force', wt)
    assert sh('git', '-C', '/repo', 'worktree', 'add', '--detach', wt, 'HEAD').returncode == 0
    try:
        for d in sorted((HERE / 'seeded').glob(f"{pid}-*m*")):
            if args.only and d.name != args.only:
                continue
            sh('git', '-C', wt, 'checkout', '--', '.')
            r = sh('git', '-C', wt, 'apply', str(d / 'patch.diff'))
            if r.returncode:
                print(d.name, 'patch does not apply:', r.stderr[:200])
                continue
            env = dict(os.environ, VERIF_REPO=wt)
            r = sh(str(HERE / 'check'), chk, '--tier', args.tier, '--jobs', args.jobs, '--no-evidence', env=env, cwd=str(HERE), timeout=6 * 3600)
            buckets = [l.split(' ')[1][len('bucket='):] for l in r.stdout.splitlines() if l.startswith('FAIL bucket=')]
            caught = r.returncode == 1 and 'VIOLATION' in r.stdout
            meta = json.loads((d / 'meta.json').read_text())
            runs = meta.setdefault('runs', [])
            runs.append({'check': chk, 'tier': args.tier, 'exit': r.returncode, 'caught': caught, 'buckets': buckets[:8]})
            (d / 'meta.json').write_text(json.dumps(meta, indent=1) + '\n')
            print(d.name, chk, args.tier, 'CAUGHT' if caught else f'missed (exit {r.returncode})', buckets[:4], flush=True)
            if r.returncode == 2:
                print(r.stdout[-600:])
            for f in (HERE / 'replays' / chk).glob('auto_*.json'):
                f.unlink()
    finally:
        sh('git', '-C', '/repo', 'worktree', 'remove', '--force', wt)


if __name__ == '__main__':
    main()
