#!/usr/bin/env python3
"""Regenerates /verif/MANIFEST.json from the table below (one entry per claimed property)."""
import json
import sys
from pathlib import Path

HERE = Path(__file__).resolve().parent.parent

CHECKS = {
    'C01': dict(
        category='exploration', design_ref='DESIGN.md §3 C01, §2.2, §2.4',
        technique='exhaustive small-format enumeration + Hypothesis wide formats vs independent exact-rational rounding oracle',
        text='Every small context of every family (float p<=4, EFloat/IEEE nbits<=6 with all NaN kinds/inf/eoffsets, fixed nbits<=5, Exp nbits<=4; '
             'thorough: nbits<=9, p<=8) x 8 modes x overflow modes x NaN/inf options x all breakpoint operands x 5 carrier types x round/round_at/'
             'round_integer/exact is compared (value, membership, inexact/overflow flags, exceptions) with an oracle written from the definition of the '
             'rounding modes over exact rationals; a Hypothesis layer covers wide formats (p<=300, |exp|<=10^4). Rounding is piecewise constant with '
             'failures living at breakpoints, so exhaustive breakpoint enumeration of all small formats is the strongest generated-input evidence available; it does not prove wide formats.',
        note='Trusted: vlib/oracle_round.py + vlib/refdec.py (self-tested against numpy float16/32 casts and an analytic/enumerated cross-check); Python Fraction arithmetic.'),
}

CHECKS['C04'] = dict(
    category='exploration', design_ref='DESIGN.md §3 C04, §2.5, §2.6',
    technique='grammar-based FPy source generation (seeded PRNG + Hypothesis draws) vs independent reference evaluator written from the language documents',
    text='Generated FPy modules (helpers with/without declared contexts, nested/sequential with-blocks with computed constructor arguments, loops, '
         'early returns, list aliasing and mutation, comprehensions, reductions, comparison chains) and per-clause templates are loaded through the real '
         '@fpy decorator and run on several argument tuples and caller contexts; every returned value is compared (sign of zero, NaN, structure) with a '
         'reference evaluator that walks Python\'s own ast of the same text, carries the active context explicitly and rounds exact rational results once '
         'with the independent rounding oracle. Context sensitivity is measured per case by re-evaluating with all contexts ignored.',
    note='Trusted: vlib/refeval.py (documents as written), vlib/oracle_round.py. Programs outside the generator grammar (transcendentals, foreign values, '
         'pow/mod, nested lists beyond templates) are not explored; document-ambiguous cases are skipped and counted.')

NOT_YET = {}


def main():
    props = [json.loads(l) for l in (HERE / 'properties.jsonl').read_text().splitlines() if l.strip()]
    checks = []
    na = []
    for p in props:
        pid = p['id']
        c = CHECKS.get(pid)
        if c is None:
            na.append({'property_id': pid, 'reason': NOT_YET.get(pid, 'not claimed yet: its property-based check is still under construction (see DESIGN.md §3 for the planned generator and oracle)')})
            continue
        checks.append({
            'property_id': pid,
            'quick_cmd': f'./check {pid} --tier quick',
            'thorough_cmd': f'./check {pid} --tier thorough',
            'evidence_file': f'evidence/{pid}.json',
            'replay_cmd_template': f'./check {pid} --replay {{path}}',
            'engine': 'pbt',
            'level_claimed': {'category': c['category'], 'text': c['text'], 'design_ref': c['design_ref']},
            'level_note': c['note'],
            'technique': c['technique'],
        })
    man = {
        'version': 1,
        'setup_cmd': '/venv/bin/python -c "import hypothesis, fpy2, gmpy2, numpy; print(hypothesis.__version__)"',
        'hooks': {
            'guard': 'FPY_VERIF',
            'enable': 'no source hooks are needed: checks import /repo (PYTHONPATH) directly; ./check exports FPY_VERIF=1 for symmetry',
            'baseline_off_cmd': 'cd /repo && /venv/bin/python -m pytest -ra -q -p no:cacheprovider --timeout=900 --continue-on-collection-errors',
            'source_commits': [],
            'add_only': True,
        },
        'engines': [{
            'name': 'pbt', 'path': 'vlib/runner.py',
            'serves_properties': [c['property_id'] for c in checks],
            'kind_free_text': 'property-based testing: sharded exhaustive enumeration of small domains, Hypothesis strategies and state machines, '
                              'grammar-based FPy program generation; independent oracles; collect-then-bucket failures; JSON replays',
        }],
        'checks': checks,
        'notes': 'Exit 0 held / 1 VIOLATION / 2 harness error. known_findings.json lists genuine defects (open ones print KNOWN-FINDING). '
                 'All checks honour VERIF_SEED and VERIF_TIER.',
        'not_applicable': na,
    }
    (HERE / 'MANIFEST.json').write_text(json.dumps(man, indent=1) + '\n')
    try:
        import jsonschema
        jsonschema.validate(man, json.loads(Path('/root/.vp/MANIFEST.schema.json').read_text()))
        print('MANIFEST.json valid;', len(checks), 'checks,', len(na), 'not claimed')
    except ImportError:
        print('written (jsonschema not available to validate)')


if __name__ == '__main__':
    main()
