#!/usr/bin/env python3
"""Regenerates /verif/MANIFEST.json from the table below (one entry per claimed property)."""
import json
import sys
from pathlib import Path

HERE = Path(__file__).resolve().parent.parent

CHECKS = {
    'C01': dict(
        category='exploration', design_ref='DESIGN.md §3 C01, §2.2, §2.4',
        technique='exhaustive small-format enumeration + Hypothesis wide formats vs independent exact-rational rounding oracle',
        text='Every small context of every family (float p<=4, EFloat/IEEE nbits<=6 with all NaN kinds/inf/eoffsets, fixed nbits<=5, Exp nbits<=4; '
             'thorough: nbits<=8, p<=6) x 8 modes x overflow modes x NaN/inf options x all breakpoint operands x 5 carrier types x round/round_at/'
             'round_integer/exact is compared (value, membership, inexact/overflow flags, exceptions) with an oracle written from the definition of the '
             'rounding modes over exact rationals; a Hypothesis layer covers wide formats (p<=300, |exp|<=10^4). Rounding is piecewise constant with '
             'failures living at breakpoints, so exhaustive breakpoint enumeration of all small formats is the strongest generated-input evidence available; it does not prove wide formats.',
        note='Trusted: vlib/oracle_round.py + vlib/refdec.py (self-tested against numpy float16/32 casts and an analytic/enumerated cross-check); Python Fraction arithmetic.'),
}

CHECKS['C04'] = dict(
    category='exploration', design_ref='DESIGN.md §3 C04, §2.5, §2.6',
    technique='grammar-based FPy source generation (seeded PRNG + Hypothesis draws) vs independent reference evaluator written from the language documents',
    text='Generated FPy modules (helpers with/without declared contexts, nested/sequential with-blocks with computed constructor arguments, loops, '
         'early returns, list aliasing and mutation, comprehensions, reductions, comparison chains) and per-clause templates are loaded through the real '
         '@fpy decorator and run on several argument tuples and caller contexts; every returned value is compared (sign of zero, NaN, structure) with a '
         'reference evaluator that walks Python\'s own ast of the same text, carries the active context explicitly and rounds exact rational results once '
         'with the independent rounding oracle. Context sensitivity is measured per case by re-evaluating with all contexts ignored.',
    note='Trusted: vlib/refeval.py (documents as written), vlib/oracle_round.py. Programs outside the generator grammar (transcendentals, foreign values, '
         'pow/mod, nested lists beyond templates) are not explored; document-ambiguous cases are skipped and counted.')

CHECKS['C05'] = dict(
    category='exploration', design_ref='DESIGN.md §3 C05, §2.1',
    technique='exhaustive small-encoding pairs + Hypothesis wide values vs exact-rational homomorphism oracle',
    text='All encodings with c<16, exp in [-3,3], both signs (zeros at every exponent, redundant encodings), infinities, NaN as Float and RealFloat plus '
         'int/float/Fraction pools incl. non-dyadic thirds: every ordered pair x every operator (+ - * ** neg pos abs, six comparisons, hash, compare, split, '
         'normalize, is_more_significant, bit, int/float/trunc/floor/ceil/round, as_rational, from_*) is checked against denotations computed with Fractions and '
         'IEEE special rules; equal values must hash equally across the five numeric types; a Hypothesis layer covers 400-bit significands and exponents +-10^4.',
    note='Trusted: vlib/denote.py and Python Fraction arithmetic. Unsupported mixed-type combinations that raise TypeError are "not offered" and counted.')

CHECKS['C16'] = dict(
    category='exploration', design_ref='DESIGN.md §3 C16, §2.4',
    technique='exhaustive bit-pattern and member enumeration of every small format vs reference decoders written from the published layouts',
    text='Every bit pattern and member of every EFloat format the constructor accepts (all es, nbits<=8 quick / <=11 thorough, inf on/off, 4 NaN kinds, '
         'eoffset in {-3,0,2}), IEEE, two\'s-complement, sign-magnitude and exponential formats, plus ordinal windows of the multi-precision families and sampled '
         'binary16/32/64 patterns against numpy/struct: decode vs reference, encode/decode round trips up to NaN payload, ordinals strictly increasing and '
         'contiguous with both zeros on one ordinal, next_up/next_down = +-1 ordinal, min/max queries, representable_in vs the decoded set (members, midpoints, '
         'beyond range, specials), normalize canonical and value-preserving.',
    note='Trusted: vlib/refdec.py (layouts as documented in the EFloatContext docstring/blog post), numpy for native formats.')

CHECKS['C03'] = dict(
    category='exploration', design_ref='DESIGN.md §3 C03, §2.3',
    technique='generated operands/contexts incl. hard-case search vs MPFR directed-rounding enclosures at high precision + independent rounding oracle',
    text='Every elementary/special function and named constant x operands (members of small source formats in the domain, domain edges, exact-result points, '
         'Hypothesis hard-case search near breakpoints) x contexts (MPFloat p=1..64 dense and up to 400, subnormal-producing MPS/IEEE, fixed-point targets across the '
         'result magnitude) x 8 modes: the true value is enclosed between MPFR round-down and round-up evaluations at 128..4096 bits, both ends are rounded by the '
         'independent oracle, and the implementation must return that member; exactly representable results must come back exact with inexact=False. Undecided '
         'enclosures are skipped and counted, never failed.',
    note='Trusted: gmpy2/MPFR directed rounding at high precision (self-tested against published digits and identities), vlib/oracle_round.py. '
         'pi/2, pi/4, sqrt(1/2) accept both the round-once and the documented double-rounding reading. Non-dyadic rational operands are refused by the library (counted probe).')

CHECKS['C06'] = dict(
    category='exploration', design_ref='DESIGN.md §3 C06',
    technique='generated literal spellings through the real decorator vs an independent tokeniser to exact rationals + rounding oracle',
    text='Literal spellings generated as text (integers to 60 digits, decimals, exponents to +-400, out-of-double-range, >17 digits, underscores, uppercase E, '
         'boundary-directed decimal expansions of rounding breakpoints, negated zeros, hexfloat strings, rational(p,q), digits(m,e,b)) are compiled in five source '
         'layouts and evaluated under REAL (must denote exactly the spelling) and under narrow contexts (fp.round(lit) must be the exact value rounded once). '
         'One genuine defect is open (KNOWN-FINDING float-literal-via-double): the parser reads Python\'s already rounded float.',
    note='Trusted: the tokeniser in props/c06_literals.py (Python lexical grammar, C99 hexfloat), vlib/oracle_round.py. A bare literal under a non-REAL context may be exact or rounded once.')

CHECKS['C14'] = dict(
    category='exploration', design_ref='DESIGN.md §3 C14, §2.7',
    technique='traced program execution + exhaustive abstract-format member enumeration vs an independent membership predicate',
    text='(a) generated typed programs analysed with pinned caller context/argument formats and run under a tracing interpreter: every traced value of every '
         'expression/definition and the result must be a member of the inferred format (membership decided by our own predicate, for concrete formats by the C01 '
         'oracle); (b) exhaustive: all small AbstractFormats (prec<=3, exp in [-2,1], small bounds, 2^4 special flags) x all members for + - * neg abs union '
         'and the sub-format test; (c) round_is_identity True implies ctx.round(v) = v for every member. Four genuine defects are open known findings.',
    note='Trusted: vlib/c14_member.py, vlib/trace.py hooks (values snapshotted at observation), vlib/oracle_round.py. Callee bodies are not traced.')

CHECKS['C18'] = dict(
    category='exploration', design_ref='DESIGN.md §3 C18',
    technique='generated programs with identity snapshots + Hypothesis rule-based state machine over evaluation histories + harness-owned deterministic thread schedules',
    text='(a) isolation: generated programs that mutate/return/alias list parameters (nested rows, tuples holding lists): deep value+identity snapshot of the '
         'arguments before = after, result shares no container with the arguments, result equals the reference evaluator; (b) histories: a Hypothesis '
         'RuleBasedStateMachine interleaves module definition, evaluation, strategies producing transformed copies, fresh vs default interpreters, same-named '
         'functions, stochastic-context operations and re-evaluation; every evaluation must equal its history-free model entry; (c) schedules: 2-3 threads '
         'evaluating under different contexts with the harness handing a baton between them at Python line events (switches inside the MPFR call wrapper '
         'and the with-block stash/restore), each result must equal its sequential result; thorough adds a free-running stress layer.',
    note='Trusted: vlib/refeval.py as the history-free model, vlib/c18_sched.py. Only Python-line-granular interleavings are explored; C-extension internals are atomic to the scheduler.')

CHECKS['C15'] = dict(
    category='exploration', design_ref='DESIGN.md §3 C15',
    technique='bounded exhaustive enumeration of small program texts through the real front end + branch/trip-count input enumeration vs an independent must-be-defined dataflow',
    text='Every program text up to the stated bounds (<=3 statements with <=7 name slots, 4 statements with <=5 slots, sampled 5-statement skeletons, plus random larger '
         'shapes) built from assignments, tuple patterns, if/else, one-armed if, for, enumerate(zip) targets, while, with-as, comprehensions and returns goes through '
         '@fp.fpy; accepted programs are run on every combination of branch outcomes and trip counts and must never end in NameError/UnboundLocalError/KeyError from '
         'name resolution or fall off the end; programs the language guide says are rejected (use after a construct that may bind zero times) must be rejected, '
         'decided by our own dataflow written from the guide.',
    note='Trusted: the must-be-defined oracle in props/c15_definite_assignment.py. Cases the guide does not decide are counted as either-outcome.')

CHECKS['C12'] = dict(
    category='translation_validation', design_ref='DESIGN.md §3 C12',
    technique='generated FPCore-expressible programs: backend output validated by a reference FPCore evaluator, by read-back, and by a structural annotation walk',
    text='Programs from an FPCore-subset generator (explicitly rounded constants, sequential and nested with-blocks with statements after the inner block, if/while/for '
         'with 1-3 carried variables, tuples, tensors, reductions, helper calls) are compiled to FPCore; (a) titanfp evaluates the core on the arguments, (b) '
         'Function.from_fpcore reads it back and is evaluated, (c) the core tree is walked with an active-properties stack in lock-step with the source context '
         'stack so every operation sits under exactly its enclosing with-block precision/rounding. A titanfp disagreement is a violation only when (b) or (c) confirm it.',
    note='Trusted: titanfp as reference evaluator (only with confirmation), vlib/c12_oracle.py walkers. disagreements_checked counts titanfp-only disagreements examined.')

CHECKS['C07'] = dict(
    category='exploration', design_ref='DESIGN.md §3 C07',
    technique='generated programs: differential testing of each pass, all pass orders and simplify switch combinations against the original; sound repeated-state divergence detection',
    text='Programs rich in copies with later redefinition, context-dependent constants, dead stores, alias stores, asserts and helper calls (grammar-based + 24 templates) '
         'are transformed by ConstFold / CopyPropagate / DeadCodeEliminate alone, in all 6 orders, and by simplify under sampled (thorough: all 32) switch combinations; '
         'f(args) and T(f)(args) are compared by denotation on every input where f returns. Non-termination of simplify is reported only when the harness sees a '
         'repeated program state while a pass still reports a change.',
    note='Trusted: the interpreter as reference for the original program (its semantics are checked by C04); vlib/difftest.py. Transform-time refusals are counted, not violations.')

CHECKS['C08'] = dict(
    category='exploration', design_ref='DESIGN.md §3 C08',
    technique='generated loop programs with colliding names and all trip-count classes: differential testing of unroll/split/elim_iter/fuse parameterisations against the original',
    text='Programs with 1-3 nested loops (bodies reassigning outer variables, mutating the iterated list, returning early), range/zip/enumerate iterables and any/all '
         'comprehensions, with user names chosen to collide with the transforms\' temporaries, are rewritten by unroll_for (1-4), unroll_while (1-3), split (factor 1-5 and '
         'variable, PEEL/STRICT where the precondition holds), elim_iter and fuse, aimed at None / each index / cursors; results are compared on inputs of length 0-7. '
         'Two elim_iter defects are open known findings.',
    note='Trusted: interpreter as reference for the original; vlib/difftest.py. STRICT precondition failures caused by our own inputs are harness errors.')

CHECKS['C10'] = dict(
    category='exploration', design_ref='DESIGN.md §3 C10',
    technique='quantize programs for every small context x breakpoint operands: differential testing of each lowering rewrite and every prefix of the documented chain, cross-checked with the absolute rounding oracle',
    text='For every small context of the families the rewrites handle (as constructor text and as captured constant) a quantize program is rewritten by unfold_special, '
         'unfold_neg_zero, unfold_overflow (both early_check settings), float_to_fixed, rescale_fixed, elim_round, insert_round alone and by every prefix of the '
         'documented chain; original and lowered programs are compared on all breakpoint operands (subnormal boundary, maxval, infval+-eps, zeros, infinities, NaN). '
         'Refusals are allowed and counted; a refused site must leave sites(). Both sides are also compared with the C01 oracle so common defects are attributed to C01.',
    note='Trusted: interpreter as reference for the original, vlib/oracle_round.py. One sign-of-zero finding (root cause F15) is excluded by construction and listed as open.')

CHECKS['C02'] = dict(
    category='exploration', design_ref='DESIGN.md §3 C02, §2.3',
    technique='exhaustive small-source-format operand tuples x narrow/wide/fixed targets + Hypothesis double-rounding-directed operands vs exact-rational/algebraic operation reference rounded once',
    text='For each of the 21 listed operations: exhaustive operand tuples over all members of a small IEEE source format (plus zeros, infinities, NaN) x target contexts '
         'deliberately narrower/wider/fixed-point x 8 modes; fma on a reduced cube plus cancellation-directed triples; a Hypothesis layer with unrelated precisions, '
         'mixed carriers incl. non-dyadic Fractions, and operands solved so the exact result sits next to a target breakpoint. The reference computes the exact value '
         '(rationals; square/cube roots and hypot decided by integer comparisons of candidate^k with the radicand), applies IEEE special-value tables written from the '
         'standard, and rounds once with the independent oracle; under REAL the result must be the exact value itself.',
    note='Trusted: vlib/oracle_ops.py (self-tested against CPython binary64 arithmetic), vlib/oracle_round.py. Open choices (RTN cancellation sign, zero mod sign, copysign of NaN) accept sets; "not offered" combinations are counted.')

CHECKS['C17'] = dict(
    category='exploration', design_ref='DESIGN.md §3 C17',
    technique='scripted-RNG enumeration of all 2^k draws per operand over every gap of small stochastic contexts vs exact count oracle',
    text='Contexts of every family that supports random bits (k in {1,2,3,4,6} and all-bits, 8 base modes) x operands at j/2^(k+2) positions of every gap '
         '(subnormal gaps, across 2^emin, last gap below maxval, negative values), endpoints and zeros x ALL 2^k scripted draws through the public rng= parameter: '
         'every result is one of the two neighbours, representable operands are unchanged, the result is a function of (operand, draw), the number of draws that round '
         'away equals frac*2^k rounded by the base mode, exactly one draw of the context\'s k is consumed per finite non-zero rounding; an op-level layer checks add/mul/div under stochastic contexts.',
    note='Trusted: vlib/oracle_round.py for the base-mode rounding of the extra digits; scripted random.Random subclass records every getrandbits call.')

CHECKS['C19'] = dict(
    category='exploration', design_ref='DESIGN.md §3 C19',
    technique='watermarked program generation + bounded enumeration of site/refusal arrangements + Hypothesis rule-based state machine over strategy/cursor histories vs an independent forwarding model',
    text='Programs in which every statement binds a program-unique name (so descent is decided by watermark sets, independent of paths) are rewritten by every aimable strategy: '
         'for k listed sites, where=j rewrites exactly the statement site j names and nothing else, other indices raise TransformReferenceError, where=None equals all k, '
         'where=cursor equals where=index, and sites+refusals equal our own candidate scan; a state machine takes cursors, applies reporting and non-reporting passes, '
         'forwards and re-aims old cursors, and every held cursor must either raise or resolve to statements descending from its origin. 2068 small arrangements are enumerated exhaustively.',
    note='Trusted: vlib/c19_model.py (own tree walkers and reference forwarding model). Multi-statement Rewrite windows share one image; statically empty loops dropped by unroll/split are counted.')

CHECKS['C20'] = dict(
    category='exploration', design_ref='DESIGN.md §3 C20',
    technique='exhaustive operand pairs/triples over all members of small float contexts with preconditions enforced by construction vs exact rational identities and the rounding oracle',
    text='For every error-free transformation: all operand pairs (triples for p<=4) over all members of MPSFloat/IEEE contexts with p in 2..6 incl. subnormals, under the modes each '
         'docstring allows, with the stated preconditions built into the generator (ordered magnitudes, enough precision for Veltkamp splitting, exponent windows keeping error terms '
         'in range): den(s) + sum den(t_i) must equal the exact sum/product/fma and s must be the correctly rounded result; split/modf/frexp must recombine exactly; ldexp must be '
         'the exact product rounded once (incl. subnormal/overflow results); ideal_* variants under any context where the rounded result is finite.',
    note='Trusted: vlib/oracle_round.py, Fraction arithmetic. Exponent windows are listed in the module (WINDOWS) and in the evidence rule.')

CHECKS['C11'] = dict(
    category='translation_validation', design_ref='DESIGN.md §3 C11, §2.8',
    technique='format-tracking program generation x 12 compiler option sets: emitted C++ built with g++ and compared bit for bit with the interpreter',
    text='Programs from a format-tracking generator (FP32/FP64 under the four hardware modes, SINT/UINT 8-64, INTEGER, REAL sections fitting a machine type; loops, branches, '
         'tuples, nested and aliased lists, list-mutating helper functions compiled as modules) are compiled under optimize x unbox{NEVER,ALLOW,STRICT} x arrays (+unsafe_cast_int), '
         'assembled ~100 kernels per translation unit with a generated driver that builds arguments at the storage types signature() reports, sets fesetround, and prints raw bits; '
         'g++ -O0 -frounding-math -ffp-contract=off; outputs are compared bit for bit (NaN for NaN) with Function.__call__. g++ rejecting accepted output or a run-time abort is a '
         'violation of its own. Four backend defects whose repairs would require editing text-pinning unit tests are open known findings, excluded by construction and reported by witness replays.',
    note='Trusted: g++ 12 at -O0 -frounding-math -ffp-contract=off, glibc sqrt/fma/nearbyint correctly rounded, the interpreter as reference (checked by C04). Exit 2 if g++ is missing. '
         'disagreements_checked counts mismatches re-examined under the RTN exact-zero open choice.')

CHECKS['C13'] = dict(
    category='exploration', design_ref='DESIGN.md §3 C13, §2.7',
    technique='generated typed programs executed under a tracing interpreter; every reported static fact is checked against every observation (one soundness relation per analysis)',
    text='Typed programs (incl. list[list[Real]], every alias route: binding, indexing, slicing, construction, tuple packing, iteration, comprehension variables; loop-header and '
         'branch merges; value-class-relevant arithmetic; constants across redefinitions) run under a tracing subclass of the bytecode interpreter keyed by AST node identity: '
         'observed values have the shape of the inferred type; concrete sizes equal len and equal size variables mean equal lengths; classify(value) is in the reported value class; '
         'an expression reported constant always equals it; the run-time last writer of a read is among the reaching definitions; names bound to the same list object are may-aliases. '
         'One array-size defect (row replaced through an alias) is an open known finding.',
    note='Trusted: vlib/trace.py + vlib/c13_trace.py hooks (values snapshotted at observation), vlib/c13_oracle.py. Callees run untraced but every function is also checked as an entry point. Analysis crashes on accepted programs are counted in their own class.')

CHECKS['C09'] = dict(
    category='exploration', design_ref='DESIGN.md §3 C09',
    technique='generated caller/callee chains: differential testing of inline / monomorphize / close / lift_context against the corresponding evaluation of the original',
    text='Caller/callee chains of depth <=3 (callees with/without their own context, called under nested with-blocks, in loops, comprehensions, conditions, twice in one expression; '
         'callees mutating list arguments; locals clashing with caller locals and free variables; multi-return callees and calls in while conditions that must be refused) are '
         'rewritten by inline (where None/index/cursor, recursive or one level, function subsets), monomorphize(ctx[, args]), close and lift_context and compared with the '
         'original evaluated the corresponding way (inline(f)(a, ctx=c) vs f(a, ctx=c); monomorphize(f, C)(a) vs f(a, ctx=C); close(f) vs f; lift_context(f) vs f) incl. the final '
         'contents of list arguments. Refusals are counted, not violations.',
    note='Trusted: interpreter as reference for the original (checked by C04); vlib/difftest.py. args= annotations have no run-time effect in the interpreter, so that class cannot discriminate.')

NOT_YET = {}


def main():
    props = [json.loads(l) for l in (HERE / 'properties.jsonl').read_text().splitlines() if l.strip()]
    checks = []
    na = []
    for p in props:
        pid = p['id']
        c = CHECKS.get(pid)
        if c is None:
            na.append({'property_id': pid, 'reason': NOT_YET.get(pid, 'not claimed yet: its property-based check is still under construction (see DESIGN.md §3 for the planned generator and oracle)')})
            continue
        checks.append({
            'property_id': pid,
            'quick_cmd': f'./check {pid} --tier quick',
            'thorough_cmd': f'./check {pid} --tier thorough',
            'evidence_file': f'evidence/{pid}.json',
            'replay_cmd_template': f'./check {pid} --replay {{path}}',
            'engine': 'pbt',
            'level_claimed': {'category': c['category'], 'text': c['text'], 'design_ref': c['design_ref']},
            'level_note': c['note'],
            'technique': c['technique'],
        })
    man = {
        'version': 1,
        'setup_cmd': '/venv/bin/python -c "import hypothesis, fpy2, gmpy2, numpy; print(hypothesis.__version__)"',
        'hooks': {
            'guard': 'FPY_VERIF',
            'enable': 'no source hooks are needed: checks import /repo (PYTHONPATH) directly; ./check exports FPY_VERIF=1 for symmetry',
            'baseline_off_cmd': 'cd /repo && /venv/bin/python -m pytest -ra -q -p no:cacheprovider --timeout=900 --continue-on-collection-errors',
            'source_commits': [],
            'add_only': True,
        },
        'engines': [{
            'name': 'pbt', 'path': 'vlib/runner.py',
            'serves_properties': [c['property_id'] for c in checks],
            'kind_free_text': 'property-based testing: sharded exhaustive enumeration of small domains, Hypothesis strategies and state machines, '
                              'grammar-based FPy program generation; independent oracles; collect-then-bucket failures; JSON replays',
        }],
        'checks': checks,
        'notes': 'Exit 0 held / 1 VIOLATION / 2 harness error. known_findings.json lists genuine defects (open ones print KNOWN-FINDING). '
                 'All checks honour VERIF_SEED and VERIF_TIER.',
        'not_applicable': na,
    }
    (HERE / 'MANIFEST.json').write_text(json.dumps(man, indent=1) + '\n')
    try:
        import jsonschema
        jsonschema.validate(man, json.loads(Path('/root/.vp/MANIFEST.schema.json').read_text()))
        print('MANIFEST.json valid;', len(checks), 'checks,', len(na), 'not claimed')
    except ImportError:
        print('written (jsonschema not available to validate)')


if __name__ == '__main__':
    main()
