#!/usr/bin/env python3
"""
Operator-level mutation sensitivity: samples single-token mutants of the files a property is anchored in
(comparison boundary, +/-, and/or, dropped `not`, off-by-one small constants, negated `if`), applies each to a
scratch worktree of /repo HEAD, points the property's check at it (VERIF_REPO, VERIF_FAILFAST=1) and records
whether the quick tier reports a VIOLATION.  Survivors are listed for manual triage (equivalent mutant, outside
the property, or a gap to close).  Results: tools/mutations/auto_<PID>.json (appended across runs, keyed by site).

    tools/mutate.py C05 --n 40 [--seed 1] [--jobs 6] [--files fpy2/number/number/reals.py] [--funcs round,_round_at]
"""
import argparse
import ast
import json
import os
import random
import subprocess
import sys
import time
from pathlib import Path

HERE = Path(__file__).resolve().parent.parent

CMP = {'<': '<=', '<=': '<', '>': '>=', '>=': '>', '==': '!=', '!=': '==', 'is': 'is not', 'is not': 'is'}
BIN = {'+': '-', '-': '+', '//': '/', '<<': '>>', '>>': '<<'}
BOOL = {'and': 'or', 'or': 'and'}
SKIP_FUNCS = ('__repr__', '__str__', '_repr', 'format', '__format__', '__hash__')


def sh(*a, **kw):
    return subprocess.run(a, capture_output=True, text=True, **kw)


def between(lines, a, b):
    """Source text between node a's end and node b's start when both are on one line, else None."""
    if a.end_lineno != b.lineno:
        return None
    raw = lines[a.end_lineno - 1].encode()
    return a.end_lineno, a.end_col_offset, b.col_offset, raw[a.end_col_offset:b.col_offset].decode()


def sites_of(path, src, funcs):
    tree = ast.parse(src)
    lines = src.splitlines()
    out = []

    def op_site(kind, a, b, table, fn):
        r = between(lines, a, b)
        if r is None:
            return
        ln, c0, c1, text = r
        t = text.strip().strip('()').strip()
        if t in table and text.count(t) == 1 and ')' not in text and '(' not in text:
            off = text.index(t)
            out.append({'kind': kind, 'line': ln, 'col': c0 + off, 'old': t, 'new': table[t], 'func': fn})

    def visit(node, fn, skip):
        if isinstance(node, (ast.FunctionDef, ast.AsyncFunctionDef)):
            fn = node.name
            skip = skip or node.name in SKIP_FUNCS
        if isinstance(node, (ast.Raise, ast.Assert)) or (isinstance(node, ast.If) and _type_checking(node)):
            return
        if not skip and (not funcs or fn in funcs):
            if isinstance(node, ast.Compare) and len(node.ops) == 1:
                op_site('cmp', node.left, node.comparators[0], CMP, fn)
            elif isinstance(node, ast.BinOp) and not _stringy(node):
                op_site('bin', node.left, node.right, BIN, fn)
            elif isinstance(node, ast.BoolOp) and len(node.values) >= 2:
                op_site('bool', node.values[0], node.values[1], BOOL, fn)
            elif isinstance(node, ast.UnaryOp) and isinstance(node.op, ast.Not) and node.lineno == node.operand.lineno:
                raw = lines[node.lineno - 1].encode()
                text = raw[node.col_offset:node.operand.col_offset].decode()
                if text.strip() == 'not':
                    out.append({'kind': 'not', 'line': node.lineno, 'col': node.col_offset, 'old': text, 'new': '', 'func': fn})
            elif isinstance(node, ast.Constant) and type(node.value) is int and 0 <= node.value <= 3 \
                    and node.lineno == node.end_lineno and isinstance(getattr(node, '_parent', None), (ast.BinOp, ast.Compare)):
                old = lines[node.lineno - 1].encode()[node.col_offset:node.end_col_offset].decode()
                if old == str(node.value):
                    out.append({'kind': 'const', 'line': node.lineno, 'col': node.col_offset, 'old': old,
                                'new': str(node.value + 1), 'func': fn})
                    if node.value > 0:
                        out.append({'kind': 'const', 'line': node.lineno, 'col': node.col_offset, 'old': old,
                                    'new': str(node.value - 1), 'func': fn})
            elif isinstance(node, ast.Constant) and type(node.value) is bool and isinstance(getattr(node, '_parent', None), ast.Return):
                old = str(node.value)
                out.append({'kind': 'boolconst', 'line': node.lineno, 'col': node.col_offset, 'old': old,
                            'new': str(not node.value), 'func': fn})
        for ch in ast.iter_child_nodes(node):
            ch._parent = node
            visit(ch, fn, skip)

    visit(tree, '<module>', False)
    for s in out:
        s['file'] = path
    return out


def _type_checking(node):
    t = node.test
    return (isinstance(t, ast.Name) and t.id == 'TYPE_CHECKING') or (isinstance(t, ast.Attribute) and t.attr == 'TYPE_CHECKING')


def _stringy(node):
    return any(isinstance(x, ast.Constant) and isinstance(x.value, str) for x in (node.left, node.right)) \
        or isinstance(node.left, ast.JoinedStr) or isinstance(node.right, ast.JoinedStr)


def apply_site(root, s):
    p = Path(root) / s['file']
    lines = p.read_text().split('\n')
    raw = lines[s['line'] - 1].encode()
    old = s['old'].encode()
    assert raw[s['col']:s['col'] + len(old)] == old, (s, raw)
    new = s['new'].encode()
    lines[s['line'] - 1] = (raw[:s['col']] + new + raw[s['col'] + len(old):]).decode()
    p.write_text('\n'.join(lines))
    return lines[s['line'] - 1].strip()


def main():
    ap = argparse.ArgumentParser()
    ap.add_argument('pid')
    ap.add_argument('--n', type=int, default=30)
    ap.add_argument('--seed', type=int, default=1)
    ap.add_argument('--jobs', default='6')
    ap.add_argument('--files', default='')
    ap.add_argument('--funcs', default='')
    ap.add_argument('--timeout', type=int, default=1800)
    a = ap.parse_args()
    pid = a.pid.upper()
    props = {json.loads(l)['id']: json.loads(l) for l in (HERE / 'properties.jsonl').read_text().splitlines() if l.strip()}
    files = [f for f in (a.files.split(',') if a.files else props[pid]['anchors']['files']) if f.endswith('.py')]
    funcs = set(filter(None, a.funcs.split(',')))
    wt = f'/tmp/verif-mut-{pid}'
    sh('git', '-C', '/repo', 'worktree', 'remove', '--force', wt)
    assert sh('git', '-C', '/repo', 'worktree', 'add', '--detach', wt, 'HEAD').returncode == 0
    outp = HERE / 'tools' / 'mutations' / f'auto_{pid}.json'
    done = json.loads(outp.read_text()) if outp.exists() else {'property': pid, 'results': []}
    seen = {(r['file'], r['line'], r['col'], r['new']) for r in done['results']}
    try:
        sites = []
        for f in files:
            fp = Path(wt) / f
            if fp.exists():
                sites += sites_of(f, fp.read_text(), funcs)
        sites = [s for s in sites if (s['file'], s['line'], s['col'], s['new']) not in seen]
        rng = random.Random(a.seed)
        rng.shuffle(sites)
        # spread over files: round-robin by file
        byf = {}
        for s in sites:
            byf.setdefault(s['file'], []).append(s)
        pick = []
        while len(pick) < a.n and any(byf.values()):
            for f in list(byf):
                if byf[f] and len(pick) < a.n:
                    pick.append(byf[f].pop())
        print(f'{pid}: {len(sites)} candidate sites in {len(files)} files, running {len(pick)}', flush=True)
        for s in pick:
            sh('git', '-C', wt, 'checkout', '--', '.')
            s['mutated_line'] = apply_site(wt, s)
            env = dict(os.environ, VERIF_REPO=wt, VERIF_FAILFAST='1', PYTHONPATH=wt)
            imp = sh('/venv/bin/python', '-c', 'import fpy2', env=env, cwd=wt)
            t0 = time.time()
            if imp.returncode:
                s['outcome'] = 'import-error'
            else:
                try:
                    r = sh(str(HERE / 'check'), pid, '--tier', 'quick', '--jobs', a.jobs, '--no-evidence',
                           env=env, cwd=str(HERE), timeout=a.timeout)
                    s['buckets'] = [l.split(' ')[1][len('bucket='):] for l in r.stdout.splitlines() if l.startswith('FAIL bucket=')][:4]
                    if r.returncode == 1 and 'VIOLATION' in r.stdout:
                        s['outcome'] = 'caught'
                    elif r.returncode == 0:
                        s['outcome'] = 'survived'
                    else:
                        s['outcome'] = 'harness-error'
                        s['tail'] = r.stdout[-300:]
                except subprocess.TimeoutExpired:
                    s['outcome'] = 'timeout'
            s['wall'] = round(time.time() - t0, 1)
            done['results'].append(s)
            outp.write_text(json.dumps(done, indent=1) + '\n')
            print(f"{s['outcome']:13s} {s['file']}:{s['line']} [{s['func']}] {s['old']!r}->{s['new']!r}  {s['mutated_line'][:90]}  {s.get('buckets', '')}", flush=True)
            for f in (HERE / 'replays' / pid).glob('auto_*.json'):
                f.unlink()
    finally:
        sh('git', '-C', '/repo', 'worktree', 'remove', '--force', wt)
    tally = {}
    for r in done['results']:
        tally[r['outcome']] = tally.get(r['outcome'], 0) + 1
    done['tally'] = tally
    outp.write_text(json.dumps(done, indent=1) + '\n')
    print(pid, tally)


if __name__ == '__main__':
    main()
