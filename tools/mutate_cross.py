#!/usr/bin/env python3
"""
Cross pass over tools/mutations/auto_<PID>.json: a file a property is anchored in is usually anchored in by its
neighbours too, so a mutant that survives the check it was sampled for may simply belong to another property.
Each survivor is applied again and the given other checks are run (fail-fast) until one reports a VIOLATION;
the outcome is stored in the entry as "cross": {"caught_by": <PID>|None, "tried": [...]}.

    tools/mutate_cross.py C17 --against C16,C01,C05,C02 [--jobs 4]
"""
import argparse
import json
import os
import subprocess
import sys
from pathlib import Path

sys.path.insert(0, str(Path(__file__).resolve().parent))
from mutate import HERE, apply_site, sh   # noqa: E402


def main():
    ap = argparse.ArgumentParser()
    ap.add_argument('pid')
    ap.add_argument('--against', required=True)
    ap.add_argument('--jobs', default='4')
    ap.add_argument('--timeout', type=int, default=1500)
    a = ap.parse_args()
    pid = a.pid.upper()
    others = [x for x in a.against.upper().split(',') if x and x != pid]
    outp = HERE / 'tools' / 'mutations' / f'auto_{pid}.json'
    done = json.loads(outp.read_text())
    wt = f'/tmp/verif-mutx-{pid}'
    sh('git', '-C', '/repo', 'worktree', 'remove', '--force', wt)
    assert sh('git', '-C', '/repo', 'worktree', 'add', '--detach', wt, 'HEAD').returncode == 0
    try:
        for r in done['results']:
            if r['outcome'] != 'survived' or 'cross' in r:
                continue
            sh('git', '-C', wt, 'checkout', '--', '.')
            try:
                apply_site(wt, r)
            except AssertionError:
                r['cross'] = {'caught_by': None, 'tried': [], 'note': 'site moved'}
                continue
            env = dict(os.environ, VERIF_REPO=wt, VERIF_FAILFAST='1')
            tried, hit = [], None
            for o in others:
                try:
                    p = sh(str(HERE / 'check'), o, '--tier', 'quick', '--jobs', a.jobs, '--no-evidence', env=env, cwd=str(HERE),
                           timeout=a.timeout)
                except subprocess.TimeoutExpired:
                    tried.append(o + ':timeout')
                    continue
                tried.append(f'{o}:{p.returncode}')
                for f in (HERE / 'replays' / o).glob('auto_*.json'):
                    f.unlink()
                if p.returncode == 1 and 'VIOLATION' in p.stdout:
                    hit = o
                    break
            r['cross'] = {'caught_by': hit, 'tried': tried}
            outp.write_text(json.dumps(done, indent=1) + '\n')
            print(pid, f"{r['file']}:{r['line']}", r['old'], '->', r['new'], 'cross:', hit, tried, flush=True)
    finally:
        sh('git', '-C', '/repo', 'worktree', 'remove', '--force', wt)


if __name__ == '__main__':
    main()
