#!/bin/sh
# tools/intake.sh <seed-id> [src-dir]: copies an independently written change into seeded/<id>, confirms it
# (demo passes pristine / fails patched, the area's unit tests still pass with the patch; FULL=1 runs all of tests/)
# and runs the property's quick check against it.  Used for round 4 (sub-agent output under /tmp/seed4/out).
cd "$(dirname "$0")/.." || exit 2
id="$1"; src="${2:-/tmp/seed4/out/$id}"
pid=$(echo "$id" | cut -d- -f1)
mkdir -p "seeded/$id"
cp "$src/patch.diff" "$src/demo.py" "$src/meta.json" "seeded/$id/" || exit 2
case "$id" in
  C01*|C02*|C03*|C05*|C16*|C17*) tests="tests/unit/number" ;;
  C04*|C06*|C18*) tests="tests/unit/interpret tests/unit/number" ;;
  C07*|C08*|C09*|C10*|C19*) tests="tests/unit/transform tests/unit/strategies" ;;
  C13*|C14*|C15*) tests="tests/unit/analysis" ;;
  C11*|C12*) tests="tests/unit/backend" ;;
  C20*) tests="tests/unit/libraries tests/unit/interpret" ;;
esac
[ -n "$FULL" ] && tests="tests"
python3 tools/confirm_seeded.py "$id" -n 4 $tests 2>&1 | tail -3
[ -n "$NOCHECK" ] || python3 tools/run_seeded.py "$pid" --only "$id" --jobs "${JOBS:-8}" 2>&1 | tail -5
