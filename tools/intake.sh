#!/bin/sh
# tools/intake.sh <seed-id> [src-dir]: copies an independently written change into seeded/<id>, confirms it
# (demo passes pristine / fails patched, the FULL repo test suite still passes with the patch) and runs the
# property's quick check against it.  Used for round 4 (sub-agent output under /tmp/seed4/out).
cd "$(dirname "$0")/.." || exit 2
id="$1"; src="${2:-/tmp/seed4/out/$id}"
pid=$(echo "$id" | cut -d- -f1)
mkdir -p "seeded/$id"
cp "$src/patch.diff" "$src/demo.py" "$src/meta.json" "seeded/$id/" || exit 2
python3 tools/confirm_seeded.py "$id" -n 6 tests 2>&1 | tail -3
python3 tools/run_seeded.py "$pid" --only "$id" --jobs "${JOBS:-8}" 2>&1 | tail -5
