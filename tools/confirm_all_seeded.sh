#!/bin/sh
# Confirms every seeded change that has no "confirmed" record yet (see tools/confirm_seeded.py).
cd "$(dirname "$0")/.." || exit 2
for d in seeded/*/; do
  id=$(basename "$d")
  if grep -q '"confirmed"' "$d/meta.json" 2>/dev/null; then continue; fi
  case "$id" in
    C01*|C02*|C03*|C05*|C16*|C17*) tests="tests/unit/number" ;;
    C04*|C06*|C18*) tests="tests/unit/interpret" ;;
    C07*|C08*|C09*|C10*|C19*) tests="tests/unit/transform tests/unit/strategies" ;;
    C13*|C14*|C15*) tests="tests/unit/analysis" ;;
    C11*|C12*) tests="tests/unit/backend" ;;
    C20*) tests="tests/unit/libraries tests/unit/interpret" ;;
    *) tests="tests/unit/number" ;;
  esac
  python3 tools/confirm_seeded.py "$id" $tests
done
